"""C10 — Model-spec metadata indexes the generated columns truthfully.

Correspondence streams (engine `c10`, models `Model/SpecMeta.lean`, `Model/SpecsMeta.lean`):

* `meta`   a real materialisation (`materializer.get_model_matrix(...)`); the harness forwards the recorded
           `model_spec.structure` (per row: the term's factor expressions in the term's own order; per scoped term and
           scoped factor the factor expression and its variable records — name, roles, source layer —, `None` kept as
           `None`; the recorded column names), `list(model_spec.formula)` and, of `encoder_state`, which factors are
           categorical / hold contrasts. WHICH NAMES a scoped factor reads is NOT taken from the code's own records
           but read by the harness from the factor's source text (`source_uses`: Python's `ast`; the code's records are
           forwarded only for a factor this reader cannot decide); role and source of a name are the code's (C17).
           The model recomputes every derived attribute — `column_names`, the labels the matrix carries,
           `column_indices`, `term_indices`, `term_slices`, `term_variables`, `variable_terms`, `variable_indices`,
           `term_factors`, `factors`, `factor_terms`, `factor_variables`, the keys of `factor_contrasts`, `variables`,
           `variables_by_source`, `required_variables` — and the outcome of every probe: lookups by Term object (own
           factor order, reversed, with repeated factors), by printed form, by sorted form, by column name, by junk
           strings, through `[]`, `in`, `.get()`; `get_slice` with ints (negative, bool), slices, other hashable and
           unhashable objects; `get_column_indices` with a name and with lists of names; `get_variable_indices`;
           `get_term_indices(...)` and `subset(...)` with the request written as Term objects (the spec's own or
           hand-made), as strings, as ONE formula string, as a `SimpleFormula`, as a structured formula, with
           `ordering=` degree / none / sort (the harness forwards the parsed, not yet ordered, term list with
           per-factor literal flags; the ordering step runs in the model).
           HISTORIES: on the one spec object a history of up to 260 single accessor calls is run, drawn with
           repetition and in random order from all look-up probes (every accessor: `term_indices[...]`, `.get`, `in`,
           `term_slices[...]`, `.get`, `in`, `get_slice`, `get_term_indices`, `column_indices[...]`,
           `get_column_indices`, `variable_indices[...]`, `get_variable_indices`; by Term, printed form, sorted form,
           column name, junk; succeeding and failing mixed) — in half of the cases BEFORE any derived attribute is read
           (the metadata is then read for the first time after the look-ups), otherwise between two readings — and at
           the end of the case `term_indices`, `term_slices`, `term_variables`, `column_indices` are read again (items,
           `len()`, iteration). The model runs the same history on its state machine (`SpecState.run`: the cached
           mappings are the state) and returns every outcome and the final state.
* `meta:nostruct`  the same on a `ModelSpec` that was never materialized (`structure is None`): every
           structure-derived attribute raises `RuntimeError`, the formula-derived ones answer.
* `specs`  a structured formula (`y ~ …`, `… | …`, keyword parts, tuples) materialized in one call; the harness
           forwards the tree of `ModelSpec`s and, per request to `ModelSpecs.subset`, the parsed request tree; requests
           with the same structure, a part left out, a foreign key, a tuple that is too long, a list where the specs
           hold a tuple and vice versa, a request without structure, a foreign term.
* `split`  `Term.FACTOR_MATCHER.finditer` on adversarial strings against `Model.SpecMeta.matchFactors`.

Oracle (implementation only, no model): every clause of the property is evaluated directly on the
implementation's own objects: labels of the matrix vs `column_names`; the values of `term_indices`
concatenated in dict order are `0..ncols-1`, each is the block of its structure row, `term_slices`
select the same; lookups by object / printed form / column name / column position return exactly the block
computed by walking the structure; `variable_indices[v]` is exactly the set of columns owned by terms one of
whose factors uses `v`, judged twice: according to `materializer.factor_cache[expr].variables` (the code's
own per-factor record: consistency of the derived maps) and according to `source_uses` (the harness's own
reading of the factor's source text, for every name that resolves in the data, the user context or the
transforms namespace); the factor side: `term_factors` / `factors` / `factor_terms` are "every term -> its own
factors" and its exact reverse, `factor_variables[f]` is what the evaluated factor recorded and what its source
reads, `term_variables[t]` is the union over the factors evaluated for `t`, `variables_by_source` partitions
`variables` by their source, `required_variables` are the ones drawn from the data;
`spec.subset(ts).get_model_matrix(data)` has exactly the parent's columns (names and values) of
those terms, in the order of the request (as given / stably by degree / sorted), on the original data and on a
second data set; every part of `specs.subset(ts)` regenerates exactly the matching parent part's columns.
"""
from __future__ import annotations

import ast
import re
import types

import numpy
import pandas

PROPERTY = "C10"
ENGINE = "c10"
REQUIRED_THEOREMS = [
    "names_eq_labels",
    "term_ranges_partition",
    "blocks_partition",
    "lookup_by_term",
    "lookup_by_term_any_order",
    "lookup_by_made_term",
    "lookup_by_printed_form",
    "lookup_by_column_name",
    "get_slice_every_key",
    "term_mapping_get",
    "variable_indices_exact",
    "variable_terms_inverse",
    "factor_maps_inverse",
    "factor_variables_exact",
    "term_variables_from_factors",
    "variables_by_source_partition",
    "subset_regenerates",
    "subset_succeeds_iff",
    "subset_any_order",
    "request_order",
    "spec_subset",
    "specs_subset_leafwise",
    "specs_required_variables",
    "lookup_history_pure",
    "history_step_is_lookup",
    "tables_live",
]
TRUSTED = [
    "modelled, not verified: CPython dict/set semantics (insertion order, hash-then-eq probing) and `re` (the model of "
    "Term.FACTOR_MATCHER is compared with the real regular expression on every run, stream `split`; its pattern text and "
    "flags are regenerated from the live package, theorem tables_live)",
    "`hash(str)` is modelled as injective on strings (a 64-bit hash collision between two different strings, or between a "
    "string and another hashable object handed to get_slice, is outside the model)",
    "parameters of the model: the recorded `structure` itself (which columns a term generates is C02/C03), the parse of a "
    "`terms_spec` into an unordered term list or a structured tree (C01/C19; the ordering step and everything after it is "
    "in the model), role and source layer of a variable (C17) and the per-factor variable names; the names are read by the "
    "harness from each factor's source text with Python's `ast` (`source_uses`: lookup factor = its name, Python factor = "
    "every Name in Load context with its longest dotted chain, back-quoted names restored) and NOT from formulaic's own "
    "extraction, so `ast.parse` and that 40-line reader are trusted; for a factor the reader cannot decide (names bound "
    "inside the expression, back-quotes next to triple-quoted strings) the code's own record is forwarded and the oracle "
    "judges nothing; which factors `encoder_state` records as categorical with contrasts (C11); the values regenerated for "
    "one structure row (`gen` in `Model.SpecMeta.replay`) — that a replayed row reproduces the original values is C04 and "
    "is checked here only by the oracle on the real code",
    "pandas/numpy/scipy/narwhals assembly of the matrix is modelled as positional (`list`) or name-keyed (`dict`) assembly; "
    "which (materializer, output) pairs keep repeated labels is probed on the live package on every run (Gen/SpecMetaTable.lean, "
    "theorem tables_live)",
    "`Structured` (the container of a ModelSpecs) is the model of C19 (`Model/Structured.lean`); `_map`'s "
    "`try func(obj, context) except TypeError: func(obj)` retry is not modelled (no modelled branch raises TypeError there)",
]
ASSUMPTIONS = [
    "term_ranges_partition, lookup_*, variable_indices_exact, variable_terms_inverse, term_variables_from_factors, subset_* "
    "assume that no two rows of the structure hold equal terms (a dict keyed by Term cannot hold both); spec_subset assumes "
    "the same of the formula's terms (factor_maps_inverse does not); formulas with a repeated term are reachable only through "
    "Formula.differentiate or an explicit term list and are reported as finding C10-F1",
    "lookup_by_printed_form assumes factor expressions without backticks/newlines (FACTOR_MATCHER cannot split others) and "
    "pairwise different printed forms",
    "lookup_by_made_term and factor_maps_inverse assume that a Term holds each factor once (Term.__init__ guarantees it)",
    "names_eq_labels for name-keyed assembly (narwhals frames) holds iff the column names are pairwise different (finding C10-F2)",
    "subset_succeeds_iff, subset_any_order, spec_subset assume that the formula and the structure of the spec hold the same "
    "terms (SameTerms: true of every materialized spec)",
    "the third part of term_variables_from_factors assumes one variable record per factor expression (Coherent: the "
    "materializer's factor cache holds one EvaluatedFactor per expression)",
]
RULE = (
    "meta: frames of 6-9 rows with categorical A,B (1-3 levels, so that rank reduction yields zero-column terms), numeric a,b,x "
    "and adversarial columns named `A[T.b]`, `Intercept`, `a:b`, `A[b]`; formulas of 1-5 terms over names, C(), contrasts, "
    "poly(x,3), bs(x,df=4), center/scale, I(), {}, np.log, a[:] (an expression containing ':'), numeric literal scalings incl. 0.0, "
    "interactions up to degree 3 with factors in random (non-alphabetical) order, intercept on/off; or a derivative formula "
    "(Formula.differentiate); or an explicit term list with repeated / permuted terms; every materialisation has a user "
    "context (scalars lo,hi,deg,k, flags rw,on, a function mix(u,w,s), a namespace ns with ns.f/ns.lo, a dict kw, a tuple pair, "
    "level lists lvA/lvB, a contrasts object cs) and with probability 0.1 per factor (0.6 in a dedicated stream of 60 cases) a "
    "factor is a generated Python call: mix/ns.f/np.clip/np.where/scale/poly/bs/C/hashed whose arguments (data columns incl. "
    "back-quoted ones, context scalars, expressions `a + lo`, `[a][0]`, `dict(q=a)['q']`, `a[::-1]`, `(a if deg else x)`, "
    "nested calls to depth 2) are each passed positionally or BY KEYWORD at random (keyword order shuffled), or through "
    "`*pair` / `**kw`, optionally wrapped in I()/center()/{}/np.abs(); x ensure_full_rank x output in "
    "pandas/numpy/sparse x materializer pandas/narwhals x cluster_by; per case 1-3 subset/get_term_indices requests (0-4 terms "
    "by index, reversed factor order, a foreign term, repeats) written as own Term objects / hand-made Term objects / strings / "
    "one formula string / a SimpleFormula / a structured formula, ordering in default/degree/none/sort; 1-4 get_slice "
    "identifiers (ints incl. negative, beyond the end and bool; slices; None, float, tuple, numpy integer, bytes, frozenset; "
    "list, dict, set); Term probes with repeated factors; per case a history of up to 260 accessor calls drawn with repetition "
    "from all look-up probes, run before the first reading of the metadata (half of the cases) or between two readings, the "
    "mappings read again at the end. meta:nostruct: the same on an unmaterialized ModelSpec (8 cases). "
    "meta:rediff: a materialized spec after ModelSpec.differentiate (8 cases): the structure of the original terms must be gone. "
    "specs: structured formulas lhs~rhs, a|b, a|b|c, lhs~a|b, root+extra keys, keys with a tuple root (40 cases) with 3-6 "
    "requests each (same structure, a part dropped, an extra key, a longer tuple, list-for-tuple, tuple-for-list, no "
    "structure, a foreign term). split: strings over {a,b,:,`,newline,[,]}. "
    "non-trivial = the structure has an interaction whose factors are not sorted, or a zero-column term, or a multi-column "
    "term, or a call with a keyword argument, or the case is a structured formula; distinct by canonical JSON"
)

FACTOR_MATCHER = re.compile(r"(?:^|(?<=:))(`?)(?P<factor>[^`]+?)\1(?=:|$)")

# ----------------------------------------------------------------------------- generators

NUM_ATOMS = ["a", "b", "x", "a", "b", "I(a+b)", "center(a)", "scale(b)", "np.log(x)", "a[:]", "poly(x,3)",
             "bs(x, df=4)", "{a*2}", "poly(x,2)"]
CAT_ATOMS = ["A", "B", "A", "B", "C(A)", "C(B)", "C(A, contr.sum)", "C(B, contr.helmert)", "C(A, contr.treatment)",
             "C(B, contr.sum)"]
ADVERSARIAL = {"A[T.b]": "`A[T.b]`", "Intercept": "Intercept", "a:b": "`a:b`", "A[b]": "`A[b]`", "b:a": "`b:a`"}
JUNK = ["zz", "", ":", "`", "a::b", "A:", ":A", "`a:b`", "a:b", "b:a", "`a`", "`a`:`b`", "1", "0", "Intercept",
        "A[T.b]", "a\n", "a:b\n", "``", "`a:b`:x", "x:`a:b`", "B:A", "A:B", "a[:]", "`a[:]`"]


def gen_data(rng):
    nrows = rng.randint(6, 9)
    cat = {}
    for name, pool in (("A", ["a", "b", "c"]), ("B", ["x", "y", "z"])):
        k = rng.choice([1, 2, 2, 3, 3])
        codes = [i % k for i in range(nrows)]
        rng.shuffle(codes)
        cat[name] = {"levels": pool[:k], "codes": codes}
    num = {
        "a": [rng.randint(-4, 6) for _ in range(nrows)],
        "b": [rng.randint(-4, 6) for _ in range(nrows)],
        "x": rng.sample(range(1, 17), nrows),
    }
    for name in ADVERSARIAL:
        if rng.random() < 0.35:
            num[name] = [rng.randint(1, 9) for _ in range(nrows)]
    return {"nrows": nrows, "cat": cat, "num": num}


def second_data(rng, data):
    n = data["nrows"]
    cat = {}
    for k, c in data["cat"].items():
        codes = [rng.randrange(len(c["levels"])) for _ in range(n)]
        cat[k] = {"levels": c["levels"], "codes": codes}
    num = {}
    for k, v in data["num"].items():
        if k == "x":
            num[k] = list(v)
            rng.shuffle(num[k])
        else:
            num[k] = [rng.randint(-4, 6) for _ in range(n)]
    return {"nrows": n, "cat": cat, "num": num}


def make_frame(data):
    cols = {}
    for k, c in data["cat"].items():
        cols[k] = pandas.Categorical([c["levels"][i] for i in c["codes"]], categories=c["levels"])
    for k, v in data["num"].items():
        cols[k] = numpy.array(v, dtype=float)
    return pandas.DataFrame(cols)


# ---- Python-call factors whose arguments are passed positionally, by keyword, through `*`/`**`, nested in other calls,
# subscripts, conditionals ...; the names they read are data columns, values of the user context (`make_context`) and
# callables of the user context / the transforms namespace.

SCALARS = ["lo", "hi", "ns.lo", "2.0", "lo + 1", "-hi"]


def gen_arr(rng, data, depth):
    """source text of a numeric vector argument"""
    base = rng.choice(["a", "b", "x"])
    qn = [ADVERSARIAL[k] for k in data["num"] if k in ADVERSARIAL and ADVERSARIAL[k].startswith("`")]
    r = rng.random()
    if qn and r < 0.12:
        return rng.choice(qn)
    if depth < 2 and r < (0.25, 0.12)[depth]:
        return gen_call(rng, data, depth + 1, numeric=True)
    if r < 0.50:
        return rng.choice([f"{base} + lo", f"{base}[::-1]", f"[{base}][0]", f"dict(q={base})['q']",
                           f"({base} if deg else x)", f"-{base}", f"{base} * ns.lo"])
    return base


def render_call(rng, fname, params, first_positional=False, extra=(), max_positional=99):
    """params: [(name, source)] in signature order; every argument is passed positionally or by keyword at random (once
    one is passed by keyword all later ones are; keyword arguments are then shuffled)"""
    pos, kws, pos_ok = [], [], True
    for i, (name, src) in enumerate(params):
        if pos_ok and i < max_positional and ((first_positional and i == 0) or rng.random() < 0.4):
            pos.append(src)
        else:
            pos_ok = False
            kws.append(f"{name}={src}")
    rng.shuffle(kws)
    return f"{fname}({', '.join(pos + kws + list(extra))})"


def gen_call(rng, data, depth=0, numeric=False):
    sc = lambda: rng.choice(SCALARS)
    arr = lambda: gen_arr(rng, data, depth)
    arr_or_sc = lambda: arr() if rng.random() < 0.5 else sc()
    kinds = ["mix", "mix", "mix", "ns.f", "np.clip", "np.where", "star", "dstar", "scale"]
    if not numeric:
        kinds += ["poly", "bs", "C", "C", "hashed"]
    kind = rng.choice(kinds)
    if kind == "mix":
        ps = [("u", arr())]
        if rng.random() < 0.8:
            ps.append(("w", arr_or_sc()))
        if rng.random() < 0.6:
            ps.append(("s", arr_or_sc()))
        out = render_call(rng, "mix", ps)
    elif kind == "ns.f":
        out = render_call(rng, "ns.f", [("u", arr()), ("w", arr_or_sc())])
    elif kind == "np.clip":
        out = render_call(rng, "np.clip", [("a", arr()), ("a_min", sc()), ("a_max", arr_or_sc())], first_positional=True)
    elif kind == "np.where":
        out = f"np.where({arr()} > {sc()}, {arr()}, {arr_or_sc()})"
    elif kind == "star":
        out = rng.choice(["mix(*pair)", "mix(*pair, s={})".format(arr_or_sc())])
    elif kind == "dstar":
        out = render_call(rng, "mix", [("u", arr())] + ([("s", arr_or_sc())] if rng.random() < 0.5 else []), extra=["**kw"],
                          max_positional=1)
    elif kind == "scale":
        # the argument is never a nested call: a call may return a constant vector, whose scaling is 0/0 = null, and
        # rows with nulls are dropped from the parent but not from a subset without that term (null handling is C06)
        ps = [("data", gen_arr(rng, data, 2)), ("center", rng.choice(["rw", "on"]))]
        if rng.random() < 0.5:
            ps.append(("scale", rng.choice(["rw", "on"])))
        out = render_call(rng, "scale", ps, first_positional=True)
    elif kind == "poly":
        ps = [("x", rng.choice(["x", "x", "x + lo"])), ("degree", rng.choice(["deg", "deg", "2", "deg + 1"]))]
        if rng.random() < 0.4:
            ps.append(("raw", rng.choice(["rw", "on"])))
        out = render_call(rng, "poly", ps, first_positional=True)
    elif kind == "bs":
        ps = [("x", "x"), ("df", rng.choice(["k", "k", "k + 1"]))]
        if rng.random() < 0.3:
            ps.append(("degree", "deg"))
        out = render_call(rng, "bs", ps, first_positional=True, max_positional=2)
    elif kind == "C":
        cat = rng.choice(["A", "B"])
        ps = [("data", cat)]
        if rng.random() < 0.6:
            ps.append(("contrasts", rng.choice(["contr.sum", "contr.treatment", "contr.helmert",
                                               f"contr.treatment(base=lv{cat}[0])", "cs"])))
        extra = [f"levels=lv{cat}"] if rng.random() < 0.6 else []
        out = render_call(rng, "C", ps, first_positional=True, extra=extra)
    else:
        out = render_call(rng, "hashed", [("data", rng.choice(["A", "B"])), ("levels", rng.choice(["k", "k - 1"]))],
                          first_positional=True)
    if depth == 0 and kind not in ("poly", "bs", "C", "hashed") and rng.random() < 0.25:
        out = rng.choice(["I({})", "center({})", "{{{}}}", "np.abs({})"]).format(out)
    return out


def gen_ctx(rng):
    return {"lo": rng.choice([-1.0, 0.5, 2.0]), "hi": rng.choice([7.0, 9.0]), "deg": rng.choice([2, 3]),
            "k": rng.choice([4, 5])}


def make_context(c):
    """the user context of a case: scalars from the case, plus fixed helpers"""
    from formulaic.transforms.contrasts import SumContrasts

    g = c["ctx"]
    data = c["data"]
    return {
        "lo": g["lo"], "hi": g["hi"], "deg": g["deg"], "k": g["k"], "rw": False, "on": True,
        "mix": lambda u, w=1.0, s=0.0: u * w + s,
        "ns": types.SimpleNamespace(lo=1.5, f=lambda u, w=1.0: u * w),
        "kw": {"w": 2.0},
        "pair": (numpy.array(data["num"]["a"], dtype=float), 3.0),
        "lvA": list(data["cat"]["A"]["levels"]),
        "lvB": list(data["cat"]["B"]["levels"]),
        "cs": SumContrasts(),
    }


def gen_atom(rng, data, p_call=0.0):
    adv = [ADVERSARIAL[k] for k in data["num"] if k in ADVERSARIAL]
    if rng.random() < p_call:
        return gen_call(rng, data)
    r = rng.random()
    if adv and r < 0.25:
        return rng.choice(adv)
    if r < 0.6:
        return rng.choice(CAT_ATOMS)
    return rng.choice(NUM_ATOMS)


def gen_term(rng, data, p_call=0.0):
    k = rng.choice([1, 1, 2, 2, 2, 3])
    atoms = []
    wide = lambda t: t.startswith(("poly(", "bs(", "hashed("))
    for _ in range(k):
        a = gen_atom(rng, data, p_call)
        if p_call and wide(a) and any(wide(t) for t in atoms):
            a = gen_call(rng, data, numeric=True)  # one many-column call per term keeps the column count (and the run time) small
        if a not in atoms:
            atoms.append(a)
    if rng.random() < 0.15:
        atoms.insert(rng.randrange(len(atoms) + 1), rng.choice(["2", "0.5", "0.0", "3"]))
    return atoms


def gen_formula(rng, data, p_call=0.0):
    terms, seen = [], set()
    for _ in range(rng.randint(1, 5)):
        atoms = gen_term(rng, data, p_call)
        key = frozenset(a for a in atoms if not a[0].isdigit())
        if key in seen:
            continue
        seen.add(key)
        terms.append(":".join(atoms))
    icpt = rng.choice(["", "", "", "0 + ", "1 + ", "-1 + "])
    return icpt + " + ".join(terms)


def gen_meta_case(rng, tier, p_call=0.1):
    data = gen_data(rng)
    r = rng.random()
    if r < 0.72:
        build = {"formula": gen_formula(rng, data, p_call)}
    elif r < 0.86:
        vs = ["a", "b", "x"]
        terms, seen = [], set()
        for _ in range(rng.randint(1, 5)):
            fs = rng.sample(vs, rng.choice([1, 1, 2, 2, 3]))
            if frozenset(fs) in seen:
                continue
            seen.add(frozenset(fs))
            terms.append(":".join(fs))
        build = {"diff": {"formula": rng.choice(["", "0 + "]) + " + ".join(terms),
                          "wrt": [rng.choice(vs + ["zz"]) for _ in range(rng.choice([1, 1, 2]))]}}
    else:
        terms = []
        for _ in range(rng.randint(1, 4)):
            t = gen_term(rng, data, p_call)
            terms.append(":".join(t))
            if rng.random() < 0.35:
                terms.append(":".join(t if rng.random() < 0.5 else t[::-1]))
        rng.shuffle(terms)
        build = {"terms": terms}
    nsub = rng.randint(1, 3)
    subsets = []
    for _ in range(nsub):
        k = rng.randint(0, 4)
        subsets.append({
            "idx": [rng.randrange(12) for _ in range(k)],
            "rev": rng.random() < 0.4,
            "foreign": rng.random() < 0.12,
            "dup": rng.random() < 0.1,
            # how the request is written: Term objects, strings, ONE formula string, a SimpleFormula, a structured formula
            "form": rng.choice(["terms", "terms", "strs", "strs", "formula", "sformula", "structured"]),
            "icpt": rng.random() < 0.3,
            "ordering": rng.choice([None, None, "degree", "none", "none", "sort"]),
            "fresh": rng.random() < 0.3,  # Term objects written by hand (new Factor objects) instead of the spec's own
        })
    idents = []
    for _ in range(rng.randint(1, 4)):
        r = rng.random()
        if r < 0.35:
            idents.append(rng.choice([{"kind": "int", "i": rng.randint(0, 3)}, {"kind": "int", "i": -1, "rel": True},
                                      {"kind": "int", "i": rng.randint(0, 4), "rel": True}, {"kind": "int", "i": -rng.randint(1, 3)},
                                      {"kind": "int", "i": 1, "bool": True}]))
        elif r < 0.6:
            idents.append({"kind": "slice", "a": rng.choice([None, 0, 1, -2]), "b": rng.choice([None, 2, 5, -1]),
                           "c": rng.choice([None, None, 2, -1])})
        elif r < 0.85:
            idents.append({"kind": "other", "which": rng.choice(["none", "float", "tuple", "npint", "bytes", "frozenset"]),
                           "i": rng.randint(0, 2)})
        else:
            idents.append({"kind": "unhashable", "which": rng.choice(["list", "dict", "set"])})
    return dict(
        kind="meta",
        data=data,
        data2=second_data(rng, data),
        ctx=gen_ctx(rng),
        build=build,
        efr=rng.random() < 0.7,
        output=rng.choice(["pandas", "pandas", "numpy", "sparse"]),
        mat=rng.choice(["pandas", "pandas", "pandas", "narwhals"]),
        cluster=rng.random() < 0.2,
        junk=rng.sample(JUNK, 4),
        subsets=subsets,
        idents=idents,
        dupfac=rng.random() < 0.3,
        hseed=rng.randrange(1 << 30),      # the history of look-ups made on the spec (order, repetitions)
        hist_first=rng.random() < 0.5,     # look-ups before the metadata is read for the first time / between two readings
    )


# ---- structured formulas materialized in one call (ModelSpecs) and requests to ModelSpecs.subset

def gen_specs_case(rng, tier):
    data = gen_data(rng)
    part = lambda: gen_formula(rng, data)
    lhs = lambda: rng.choice(["a", "b", "x", "b + x", "np.log(x)"])
    shape = rng.choice(["lr", "lr", "tuple", "tuple3", "lr_tuple", "keys", "keys_tuple"])
    leaf = lambda s: {"leaf": s}
    if shape == "lr":
        sform = {"node": [["lhs", leaf(lhs())], ["rhs", leaf(part())]]}
    elif shape == "tuple":
        sform = {"tup": [leaf(part()), leaf(part())]}
    elif shape == "tuple3":
        sform = {"tup": [leaf(part()), leaf(part()), leaf(part())]}
    elif shape == "lr_tuple":
        sform = {"node": [["lhs", leaf(lhs())], ["rhs", {"tup": [leaf(part()), leaf(part())]}]]}
    elif shape == "keys":
        sform = {"node": [["root", leaf(part())], ["extra", leaf(part())]]}
    else:
        sform = {"node": [["mean", leaf(part())], ["root", {"tup": [leaf(part()), leaf(part())]}], ["aux", leaf(lhs())]]}
    probes = []
    for _ in range(rng.randint(3, 6)):
        probes.append({
            "mode": rng.choice(["same", "same", "same", "partial", "extra_key", "long_tuple", "leaf_for_tuple",
                                "tuple_for_leaf", "flat", "foreign"]),
            "picks": [[rng.randrange(12) for _ in range(rng.randint(0, 3))] for _ in range(4)],
            "drop": rng.randrange(4),
        })
    return dict(kind="specs", data=data, ctx=gen_ctx(rng), sform=sform, efr=rng.random() < 0.7,
                output=rng.choice(["pandas", "pandas", "numpy", "sparse"]),
                mat=rng.choice(["pandas", "pandas", "pandas", "narwhals"]), probes=probes)


def gen_split_case(rng):
    if rng.random() < 0.3:
        parts = [rng.choice(["a", "b", "x1", "`a:b`", "C(A)", "a[:]", "`a[:]`", "", "a`", "`", "a\n", "\n"])
                 for _ in range(rng.randint(1, 4))]
        s = ":".join(parts)
    else:
        s = "".join(rng.choice("ab:`\n[]:`") for _ in range(rng.randint(0, 9)))
    return dict(kind="split", s=s)


def cases(rng, tier):
    n = {"quick": 140, "thorough": 1500, "search": 60}[tier]
    for i in range(n):
        yield gen_meta_case(rng, tier)
    # call stream: most factors are Python calls taking data columns / context values positionally, by keyword, via * and **
    for i in range({"quick": 60, "thorough": 700, "search": 40}[tier]):
        yield gen_meta_case(rng, tier, p_call=0.6)
    # specs never materialized: every structure-derived attribute raises, the formula-derived ones work
    for i in range({"quick": 8, "thorough": 80, "search": 4}[tier]):
        c = gen_meta_case(rng, tier)
        c["nostruct"] = True
        yield c
    # a materialized spec differentiated afterwards: the formula changes, so the recorded structure must be gone
    for i in range({"quick": 8, "thorough": 80, "search": 4}[tier]):
        c = gen_meta_case(rng, tier)
        c["build"] = {"formula": " + ".join(":".join(rng.sample(["a", "b", "x"], rng.choice([1, 2, 2, 3])))
                                            for _ in range(rng.randint(1, 4)))}
        c["rediff"] = [rng.choice(["a", "b", "x", "zz"]) for _ in range(rng.choice([1, 1, 2]))]
        yield c
    # structured formulas -> ModelSpecs -> ModelSpecs.subset
    for i in range({"quick": 40, "thorough": 500, "search": 30}[tier]):
        yield gen_specs_case(rng, tier)
    for i in range({"quick": 300, "thorough": 4000, "search": 0}[tier]):
        yield gen_split_case(rng)
    # malformed stream: a formula that names a column that does not exist
    for i in range({"quick": 3, "thorough": 20, "search": 0}[tier]):
        c = gen_meta_case(rng, tier)
        c["build"] = {"formula": "a + nosuchcolumn:A"}
        yield c


def describe(c):
    if c["kind"] == "split":
        return "split"
    if c["kind"] == "specs":
        return "specs:" + ("tuple" if "tup" in c["sform"] else "+".join(k for k, _ in c["sform"]["node"]))
    if c.get("nostruct"):
        return "meta:nostruct"
    if c.get("rediff"):
        return "meta:rediff"
    b = c["build"]
    how = "formula" if "formula" in b else ("diff" if "diff" in b else "terms")
    text = b.get("formula") or " + ".join(b.get("terms", []))
    if "=" in text or "*" in text:
        how += "+kwcall"
    return f"meta:{how}:{c['mat']}:{c['output']}"


def nontrivial(c):
    if c["kind"] == "specs":
        return True
    if c["kind"] != "meta":
        return False
    b = c["build"]
    text = b.get("formula") or (b.get("diff") or {}).get("formula") or " + ".join(b.get("terms", []))
    for t in text.split(" + "):
        fs = t.split(":")
        if len(fs) > 1 and fs != sorted(fs):
            return True
    return any(k in text for k in ("poly", "bs(", "contr.", "C(", "="))


# ----------------------------------------------------------------------------- implementation side


def _exprs(term):
    return [f.expr for f in term.factors]


def _mk_term(exprs):
    from formulaic.parser.types import Factor, Term

    return Term([Factor(e) for e in exprs])


def _res(fn):
    try:
        return {"ok": fn()}
    except Exception as e:  # the class is the observable
        return {"err": type(e).__name__}


def _slice(s):
    return [s.start, s.stop]


def _slice3(s):
    return [None if x is None else int(x) for x in (s.start, s.stop, s.step)]


def _dense(mm):
    if hasattr(mm, "toarray"):
        a = mm.toarray()
    elif hasattr(mm, "to_numpy"):
        a = mm.to_numpy()
    else:
        a = numpy.asarray(mm)
    a = numpy.asarray(a, dtype=float)
    return [[float(v) for v in a[:, j]] for j in range(a.shape[1])]


def _labels(mm, output):
    if output in ("numpy", "sparse"):
        return None
    return [str(c) for c in mm.columns]


def _ncols(mm):
    return int(mm.shape[1])


_BACKQUOTED = re.compile(r"""("(?:\\.|[^"\\])*"|'(?:\\.|[^'\\])*')|`([^`]*)`""")
_BINDERS = (ast.Lambda, ast.ListComp, ast.SetComp, ast.DictComp, ast.GeneratorExp, ast.NamedExpr)


def source_uses(expr, method):
    """The names a factor reads, derived from its SOURCE TEXT alone with Python's `ast` (independent of
    formulaic.utils.variables): a factor looked up by name reads that name; a literal reads nothing; in a Python factor
    every `Name` in Load context is read, wherever it stands (positional or keyword argument, `*`/`**` argument,
    subscript, operand, nested call ...), and it is reported under the library's naming convention for variables: the
    longest `name.attr.attr` chain it heads (`np.log`, `ns.lo`); a back-quoted name (outside string literals) stands
    for itself. Returns a sorted list, or None when this reader cannot decide (names bound inside the expression,
    back-quotes next to triple-quoted strings or heading an attribute chain, unparsable text) -- then nothing is
    demanded for that factor."""
    if method == "literal":
        return []
    if method == "lookup":
        return [expr]
    if "`" in expr and ('"""' in expr or "'''" in expr):
        return None
    quoted = {}

    def sub(m):
        if m.group(1) is not None:  # a string literal stays as it is
            return m.group(1)
        key = f"_fvq{len(quoted)}_"
        quoted[key] = m.group(2)
        return f" {key} "

    src = _BACKQUOTED.sub(sub, expr).strip()
    if any(k in expr for k in quoted):
        return None
    try:
        tree = ast.parse(src, mode="eval")
    except SyntaxError:
        return None
    if any(isinstance(n, _BINDERS) for n in ast.walk(tree)):
        return None
    found, undecided = set(), []

    def chain(node):
        if isinstance(node, ast.Name):
            return node.id
        if isinstance(node, ast.Attribute):
            base = chain(node.value)
            return None if base is None else base + "." + node.attr
        return None

    def visit(node):
        if isinstance(node, ast.Attribute):
            name = chain(node)
            if name is not None:
                if name.split(".")[0] in quoted:
                    undecided.append(name)
                found.add(name)
                return
        elif isinstance(node, ast.Name):
            if not isinstance(node.ctx, ast.Load):
                undecided.append(node.id)
            found.add(quoted.get(node.id, node.id))
            return
        for child in ast.iter_child_nodes(node):
            visit(child)

    visit(tree)
    return None if undecided else sorted(found)


def _transform_names():
    from formulaic.transforms import TRANSFORMS

    return list(TRANSFORMS)


def _vrec(v):
    roles = {getattr(r, "value", r) for r in v.roles}
    return dict(n=str(v), v="value" in roles, c="callable" in roles, s=v.source)


def _vars(vs):
    """canonical form of a set of Variables: sorted [name, is value, is callable, source]"""
    return sorted([d["n"], d["v"], d["c"], d["s"]] for d in map(_vrec, vs))


def _dump_structure(spec):
    """the recorded structure as the model reads it (None when the spec was never materialized)"""
    if spec.structure is None:
        return None
    return [
        dict(
            term=_exprs(s.term),
            sterms=[
                [
                    dict(
                        e=sf.factor.factor.expr,
                        vars=None if sf.factor.variables is None
                        else sorted((_vrec(v) for v in sf.factor.variables), key=lambda d: d["n"]),
                    )
                    for sf in st.factors
                ]
                for st in s.scoped_terms
            ],
            columns=[str(x) for x in s.columns],
        )
        for s in spec.structure
    ]


def _dump_enc(spec):
    from formulaic.parser.types import Factor

    out = []
    for k, v in spec.encoder_state.items():
        try:
            out.append(dict(e=str(k), cat=v[0] is Factor.Kind.CATEGORICAL, con="contrasts" in v[1]))
        except Exception:
            out.append(dict(e=str(k), cat=False, con=False))
    return out


def _src_key(k):
    return "n" if k is None else "s" + k


ATTRS = ["column_names", "column_indices", "term_indices", "term_slices", "term_variables", "variable_terms",
         "variable_indices", "term_factors", "factors", "factor_terms", "factor_variables", "factor_contrasts",
         "variables", "variables_by_source", "required_variables"]
# attributes the model computes from the formula alone (they cannot raise; the engine sends the bare value)
NOFAIL = {"term_factors", "factors", "factor_terms", "factor_contrasts"}


def _kexprs(k):
    """the key of a Term-keyed mapping: a Term is dumped as its factor expressions; anything else that found its way
    among the keys is dumped as a marker (it makes every comparison with the terms of the spec fail)"""
    from formulaic.parser.types import Term

    return _exprs(k) if isinstance(k, Term) else ["\x00key of type " + type(k).__name__ + ": " + repr(k)]


def _dump_mappings(spec, out):
    """the per-term / per-column mappings, exactly as a reader sees them now (items, len(), iteration)"""
    out["column_indices"] = _res(lambda: [[k, v] for k, v in spec.column_indices.items()])
    out["term_indices"] = _res(lambda: [[_kexprs(k), list(v)] for k, v in spec.term_indices.items()])
    out["term_slices"] = _res(lambda: [[_kexprs(k), _slice(v)] for k, v in spec.term_slices.items()])
    out["term_variables"] = _res(lambda: [[_kexprs(k), _vars(v)] for k, v in spec.term_variables.items()])
    out["lens"] = _res(lambda: dict(term_indices=len(spec.term_indices), term_slices=len(spec.term_slices),
                                    column_indices=len(spec.column_indices), term_variables=len(spec.term_variables)))
    out["iters"] = _res(lambda: dict(term_indices=[_kexprs(k) for k in spec.term_indices],
                                     term_slices=[_kexprs(k) for k in spec.term_slices.keys()],
                                     column_indices=[k for k in spec.column_indices],
                                     term_variables=[_kexprs(k) for k in spec.term_variables]))


MAPPINGS = ["term_indices", "term_slices", "column_indices", "term_variables"]


def _dump_attrs(spec, out):
    tkey = lambda t: ":".join(t._factor_key)
    out["column_names"] = _res(lambda: list(spec.column_names))
    _dump_mappings(spec, out)
    out["variable_terms"] = _res(lambda: sorted([str(k), sorted(tkey(t) for t in v)] for k, v in spec.variable_terms.items()))
    out["variable_indices"] = _res(lambda: sorted([str(k), list(v)] for k, v in spec.variable_indices.items()))
    out["term_factors"] = _res(lambda: [[_exprs(k), sorted(f.expr for f in v)] for k, v in spec.term_factors.items()])
    out["factors"] = _res(lambda: sorted(f.expr for f in spec.factors))
    out["factor_terms"] = _res(lambda: sorted([f.expr, sorted(tkey(t) for t in v)] for f, v in spec.factor_terms.items()))
    out["factor_variables"] = _res(lambda: sorted([f.expr, _vars(v)] for f, v in spec.factor_variables.items()))
    out["factor_contrasts"] = _res(lambda: sorted(f.expr for f in spec.factor_contrasts))
    out["variables"] = _res(lambda: _vars(spec.variables))
    out["variables_by_source"] = _res(lambda: [
        [k, sorted(str(v) for v in vs)] for k, vs in sorted(spec.variables_by_source.items(), key=lambda kv: _src_key(kv[0]))
    ])
    if spec.structure is not None:  # on an unmaterialized spec this falls back to the formula (C17's subject)
        out["required_variables"] = _res(lambda: sorted(str(v) for v in spec.required_variables))


def _ident_obj(d):
    k = d["kind"]
    if k == "int":
        return True if d.get("bool") else int(d["i"])
    if k == "slice":
        return slice(d["a"], d["b"], d["c"])
    if k == "other":
        return {"none": None, "float": 1.5, "tuple": ("a",), "npint": numpy.int64(d.get("i", 0)), "bytes": b"a",
                "frozenset": frozenset(["a"])}[d["which"]]
    return {"list": ["a"], "dict": {"a": 1}, "set": {"a"}}[d["which"]]


def _history_ops(probes, tidx_specs, hseed):
    """A history of single accessor calls drawn (with repetition, in random order) from the look-up probes: every
    accessor of the term / column / variable mappings, by Term, printed form, column name, junk; succeeding and failing
    look-ups mixed. Each op remembers the probe and field that holds its first-pass answer (`pi`, `f`)."""
    import random

    pool = []
    for i, p in enumerate(probes):
        if p["k"] in ("term", "str"):
            key = {"k": p["k"], "t": p["t"]} if p["k"] == "term" else {"k": "str", "s": p["s"]}
            for op, f in (("ti", "ti"), ("ti_get", "get"), ("ti_in", "in"), ("ts", "ts"), ("ts_get", None), ("ts_in", None),
                          ("gs", "gs")):
                pool.append({"op": op, "key": key, "pi": i, "f": f})
            if p["k"] == "str":
                pool.append({"op": "ci", "s": p["s"], "pi": i, "f": "ci"})
                pool.append({"op": "cols", "names": [p["s"]], "pi": i, "f": "gci"})
        elif p["k"] == "var":
            pool.append({"op": "vi", "s": p["s"], "pi": i, "f": "vi"})
            pool.append({"op": "gvi", "names": [p["s"]], "pi": i, "f": "gvi"})
        elif p["k"] == "ident":
            pool.append({"op": "gs", "key": {x: y for x, y in p.items() if x != "k"}, "pi": i, "f": "gs"})
        elif p["k"] == "cols":
            pool.append({"op": "cols", "names": p["names"], "pi": i, "f": None})
    for parsed in tidx_specs:
        pool.append({"op": "tidx", "spec": parsed, "ordering": "degree", "pi": None, "f": None})
    rng = random.Random(hseed)
    n = min(2 * len(pool), 260)
    return [dict(rng.choice(pool)) for _ in range(n)] if pool else []


def _run_op(spec, op, tidx_objs):
    k = op["op"]
    if k in ("ti", "ti_get", "ti_in", "ts", "ts_get", "ts_in", "gs"):
        kd = op["key"]
        if kd.get("k") == "term":
            key = _mk_term(kd["t"])
        elif kd.get("k") == "str":
            key = kd["s"]
        else:
            key = _ident_obj(kd)
        opt = lambda v, f: None if v is None else f(v)
        return {
            "ti": lambda: list(spec.term_indices[key]),
            "ti_get": lambda: opt(spec.term_indices.get(key), list),
            "ti_in": lambda: key in spec.term_indices,
            "ts": lambda: _slice(spec.term_slices[key]),
            "ts_get": lambda: opt(spec.term_slices.get(key), _slice),
            "ts_in": lambda: key in spec.term_slices,
            "gs": lambda: _slice3(spec.get_slice(key)),
        }[k]
    if k == "tidx":
        ts = tidx_objs[canonical_json(op["spec"])]
        return lambda: list(spec.get_term_indices(list(ts)))
    if k == "ci":
        return lambda: spec.column_indices[op["s"]]
    if k == "cols":
        return lambda: list(spec.get_column_indices(list(op["names"])))
    if k == "vi":
        return lambda: list(spec.variable_indices[op["s"]])
    return lambda: list(spec.get_variable_indices(list(op["names"])))


def canonical_json(x):
    import json

    return json.dumps(x, sort_keys=True)


def _parsed_spec(ts, ordering):
    """What `SimpleFormula.from_spec(ts, ordering=…)` makes of `ts`, up to the ordering step: the parse (C01) is the
    library's, the ordering is left to the model. Raises whatever the library raises on an unparsable spec."""
    from formulaic.formula import DEFAULT_NESTED_PARSER, DEFAULT_PARSER, SimpleFormula, StructuredFormula

    kw = {} if ordering is None else {"ordering": ordering}
    f = SimpleFormula.from_spec(ts, **kw)
    if isinstance(f, StructuredFormula):
        return {"p": "structured"}
    if isinstance(ts, SimpleFormula):
        return {"p": "formula", "terms": [_exprs(t) for t in ts]}
    if isinstance(ts, str):
        pre = list(DEFAULT_PARSER.get_terms(ts)._simplify())
    else:
        pre = [t for value in ts for t in (DEFAULT_NESTED_PARSER.get_terms(value) if isinstance(value, str) else [value])]
    if sorted(tuple(sorted(_exprs(t))) for t in pre) != sorted(tuple(sorted(_exprs(t))) for t in f):
        raise RuntimeError("harness: the pre-ordering term list is not a rearrangement of the parsed formula")
    return {"p": "terms", "terms": [dict(t=_exprs(t), lit=[x.eval_method.value == "literal" for x in t.factors]) for t in pre]}


def _sub_dump(sub):
    return dict(
        rows=None if sub.structure is None else [dict(term=_exprs(s.term), columns=[str(x) for x in s.columns]) for s in sub.structure],
        names=None if sub.structure is None else list(sub.column_names),
        formula=[_exprs(t) for t in sub.formula],
    )


def _build_formula(b):
    from formulaic import Formula

    if "formula" in b:
        return Formula(b["formula"])
    if "diff" in b:
        return Formula(b["diff"]["formula"]).differentiate(*b["diff"]["wrt"])
    return Formula(list(b["terms"]))


def impl(c):
    if c["kind"] == "split":
        return {"factors": [m.group("factor") for m in __import__("formulaic").parser.types.Term.FACTOR_MATCHER.finditer(c["s"])]}
    if c["kind"] == "specs":
        return impl_specs(c)
    from formulaic import ModelSpec
    from formulaic.formula import SimpleFormula
    from formulaic.materializers import FormulaMaterializer
    from formulaic.parser.types import Term as _Term

    df = make_frame(c["data"])
    df2 = make_frame(c["data2"])
    nostruct = bool(c.get("nostruct"))
    try:
        formula = _build_formula(c["build"])
        ctx = make_context(c) if "ctx" in c else {}
        if nostruct:
            mm = m = None
            spec = ModelSpec(formula=formula, ensure_full_rank=c["efr"])
        else:
            m = FormulaMaterializer.for_materializer(c["mat"])(df, context=ctx)
            mm = m.get_model_matrix(
                formula, ensure_full_rank=c["efr"], output=c["output"],
                cluster_by="numerical_factors" if c["cluster"] else "none",
            )
            spec = mm.model_spec
            if c.get("rediff"):  # ModelSpec.differentiate: new formula, the structure of the old terms is dropped
                spec = spec.differentiate(*c["rediff"])
                nostruct = True
    except Exception as e:
        return {"error": type(e).__name__}
    out = {"nostruct": nostruct, "rediff": bool(c.get("rediff"))}
    out["structure"] = _dump_structure(spec)
    out["enc"] = _dump_enc(spec)
    out["formula"] = [_exprs(t) for t in spec.formula]
    out["fterms"] = [[[f.expr, f.eval_method.value] for f in t.factors] for t in spec.formula]
    out["printed"] = [repr(s.term) for s in spec.structure or ()]
    if nostruct:
        out["labels"], out["ncols"], out["values"], out["fvars"] = None, 0, [], {}
    else:
        out["labels"] = _labels(mm, c["output"])
        out["ncols"] = _ncols(mm)
        out["values"] = _dense(mm)
        out["fvars"] = {
            f.expr: sorted(str(v) for v in ((m.factor_cache[f.expr].variables if f.expr in m.factor_cache else None) or ()))
            for s in spec.structure for f in s.term.factors
        }
    # the harness's own reading of each factor's source text (not formulaic's variable extraction)
    out["uses"] = {f.expr: source_uses(f.expr, f.eval_method.value) for t in spec.formula for f in t.factors}
    out["scope"] = sorted(set(df.columns) | set(ctx) | set(_transform_names()))
    out["datacols"] = sorted(str(x) for x in df.columns)
    hist_first = bool(c.get("hist_first")) and spec.structure is not None
    if not hist_first:
        _dump_attrs(spec, out)

    # ---- probes (built from the recorded structure alone: no derived attribute is read here)
    probes = []
    terms = [s.term for s in spec.structure] if spec.structure is not None else list(spec.formula)
    for t in terms:
        ex = _exprs(t)
        probes.append({"k": "term", "t": ex})
        if len(ex) > 1:
            probes.append({"k": "term", "t": ex[::-1]})
        if c.get("dupfac"):
            probes.append({"k": "term", "t": ex + ex[:1] + ex[::-1]})  # Term.__init__ drops repeated factors
        probes.append({"k": "str", "s": repr(t)})
        probes.append({"k": "str", "s": ":".join(sorted(ex))})
        if len(ex) > 1:
            probes.append({"k": "str", "s": ":".join(ex[::-1])})
    probes.append({"k": "term", "t": ["zz"]})
    names_now = [str(x) for r in spec.structure for x in r.columns] if spec.structure is not None else []
    for n in dict.fromkeys(names_now):
        probes.append({"k": "str", "s": n})
    for s in c["junk"]:
        probes.append({"k": "str", "s": s})
    # get_column_indices with a sequence of names (in the caller's order, a name may repeat; an unknown name raises)
    uniq = list(dict.fromkeys(names_now))
    if uniq:
        probes.append({"k": "cols", "names": [uniq[-1], uniq[0], uniq[len(uniq) // 2], uniq[0]]})
        probes.append({"k": "cols", "names": [uniq[0], c["junk"][0]]})
    probes.append({"k": "cols", "names": []})
    for v in sorted(set(x for vs in out["fvars"].values() for x in vs)
                    | set(x for vs in out["uses"].values() for x in (vs or ())) | {"zz"}):
        probes.append({"k": "var", "s": v})
    for d in c.get("idents", []):
        d = dict(d)
        if d["kind"] == "int" and d.get("rel"):  # relative to the number of columns
            d["i"] = len(names_now) + d["i"]
        probes.append(dict(d, k="ident"))

    # ---- a history of look-ups on the one spec object. Either BEFORE any derived attribute was read
    # (`hist_first`: the metadata is then read for the first time after the look-ups) or after the first pass below;
    # at the very end the mappings are read again and must be what they were.
    history, history_out = [], []
    if spec.structure is not None:
        tidx_objs = {}
        for tl in ([_Term(list(t.factors)) for t in terms[::-1]], [_Term(list(t.factors)) for t in terms[:1]] + [_mk_term(["zz"])]):
            try:
                tidx_objs[canonical_json(_parsed_spec(tl, None))] = tl
            except Exception:
                pass
        import json as _json

        history = _history_ops(probes, [_json.loads(k) for k in tidx_objs], c.get("hseed", 0))

    def run_history():
        for op in history:
            history_out.append(_res(_run_op(spec, op, tidx_objs)))

    if hist_first:
        run_history()
        _dump_attrs(spec, out)
    outs = []
    for p in probes:
        if p["k"] == "term":
            t = _mk_term(p["t"])
            outs.append({
                "ti": _res(lambda: list(spec.term_indices[t])),
                "ts": _res(lambda: _slice(spec.term_slices[t])),
                "gs": _res(lambda: _slice3(spec.get_slice(t))),
                "in": _res(lambda: t in spec.term_indices),
                "get": _res(lambda: (lambda v: None if v is None else list(v))(spec.term_indices.get(t))),
            })
        elif p["k"] == "str":
            s = p["s"]
            outs.append({
                "ti": _res(lambda: list(spec.term_indices[s])),
                "ts": _res(lambda: _slice(spec.term_slices[s])),
                "gs": _res(lambda: _slice3(spec.get_slice(s))),
                "ci": _res(lambda: spec.column_indices[s]),
                "gci": _res(lambda: list(spec.get_column_indices(s))),
                "in": _res(lambda: s in spec.term_indices),
                "get": _res(lambda: (lambda v: None if v is None else list(v))(spec.term_indices.get(s))),
            })
        elif p["k"] == "cols":
            ns = list(p["names"])
            outs.append(_res(lambda: list(spec.get_column_indices(ns))))
        elif p["k"] == "var":
            v = p["s"]
            outs.append(dict(
                vi=_res(lambda: list(spec.variable_indices[v])),
                gvi=_res(lambda: list(spec.get_variable_indices([v]))),
            ))
        elif p["k"] == "ident":
            obj = _ident_obj(p)
            outs.append(dict(gs=_res(lambda: _slice3(spec.get_slice(obj)))))

    # ---- subset / get_term_indices requests: Term objects, strings, one formula string, a SimpleFormula, a
    # structured formula; default ordering or an explicit `ordering=` keyword
    subs = []
    for sb in c["subsets"]:
        if not terms:
            chosen = []
        else:
            chosen = [terms[i % len(terms)] for i in sb["idx"]]
            if not sb["dup"]:
                chosen = list(dict.fromkeys(chosen))
        form = sb.get("form", "terms")
        ordering = sb.get("ordering")
        if sb.get("fresh"):
            rev = lambda t: _mk_term(_exprs(t)[::-1] if sb["rev"] else _exprs(t))
        else:
            rev = lambda t: _Term(list(t.factors)[::-1] if sb["rev"] else list(t.factors))
        if form == "terms":
            ts = [rev(t) for t in chosen] + ([_mk_term(["zz"])] if sb["foreign"] else [])
        elif form == "strs":
            ts = [repr(rev(t)) for t in chosen] + (["zz"] if sb["foreign"] else [])
        elif form == "formula":
            body = [repr(rev(t)) for t in chosen if _exprs(t) != ["1"]] + (["zz"] if sb["foreign"] else [])
            ts = ("" if any(_exprs(t) == ["1"] for t in chosen) or sb.get("icpt") else "0 + ") + (" + ".join(body) or "0")
        elif form == "sformula":
            ts = SimpleFormula([rev(t) for t in chosen] + ([_mk_term(["zz"])] if sb["foreign"] else []), _ordering="none")
        else:  # structured
            ts = (repr(chosen[0]) if chosen else "a") + " ~ " + (" + ".join(repr(t) for t in chosen[1:]) or "1")
        try:
            parsed = _parsed_spec(ts, ordering)
        except RuntimeError:
            raise
        except Exception:
            continue  # the request does not parse (C14's subject): not a probe of the metadata
        kw = {} if ordering is None else {"ordering": ordering}
        mk = (lambda: ts) if isinstance(ts, (str, SimpleFormula)) else (lambda: list(ts))
        probes.append({"k": "tidx", "spec": parsed, "ordering": ordering or "degree"})
        outs.append(_res(lambda: list(spec.get_term_indices(mk(), **kw))))
        probes.append({"k": "subset", "spec": parsed, "ordering": ordering or "degree", "form": form})
        try:
            sub = spec.subset(mk(), **kw)
        except Exception as e:
            outs.append({"err": type(e).__name__})
            subs.append(None)
            continue
        outs.append({"ok": _sub_dump(sub)})
        rec = {}
        if not nostruct:
            try:
                m2 = sub.get_model_matrix(df, context=ctx)
                rec.update(labels=_labels(m2, c["output"]), ncols=_ncols(m2), values=_dense(m2))
                p3 = spec.get_model_matrix(df2, context=ctx)
                m3 = sub.get_model_matrix(df2, context=ctx)
                rec.update(parent2=_dense(p3), values2=_dense(m3))
            except Exception as e:
                rec["mat_error"] = type(e).__name__ + ": " + str(e)[:120]
        subs.append(rec)
    if spec.structure is not None and not hist_first:
        run_history()
    out["probes"] = probes
    out["probe_out"] = outs
    out["subs"] = subs
    out["history"] = history
    out["history_out"] = history_out
    out["hist_first"] = hist_first
    if spec.structure is not None:  # read the mappings again, after every look-up of this case
        out["after"] = {}
        _dump_mappings(spec, out["after"])
    return out


# ---- ModelSpecs (a structured formula materialized in one call) and ModelSpecs.subset


def _py_spec(tree):
    """JSON tree -> the Python formula specification: node -> dict, tup -> tuple, leaf -> its payload"""
    if "leaf" in tree:
        return tree["leaf"]
    if "tup" in tree:
        return tuple(_py_spec(t) for t in tree["tup"])
    return {k: _py_spec(v) for k, v in tree["node"]}


def _dump_tree(obj, leaf):
    from formulaic.utils.structured import Structured

    if isinstance(obj, Structured):
        return {"node": [[k, _dump_tree(v, leaf)] for k, v in obj._structure.items()]}
    if isinstance(obj, tuple):
        return {"tup": [_dump_tree(v, leaf) for v in obj]}
    return {"leaf": leaf(obj)}


def _leaves(tree, path=()):
    """[(path, payload)] of a dumped tree, depth first"""
    if "leaf" in tree:
        return [(path, tree["leaf"])]
    if "tup" in tree:
        return [x for i, t in enumerate(tree["tup"]) for x in _leaves(t, path + (i,))]
    return [x for k, t in tree["node"] for x in _leaves(t, path + (k,))]


def _probe_spec(specs, recipe):
    """the Python `terms_spec` of one ModelSpecs.subset request, built from the parent's own terms"""
    from formulaic.utils.structured import Structured

    counter = [0]

    def walk(obj):
        if isinstance(obj, Structured):
            return {k: walk(v) for k, v in obj._structure.items()}
        if isinstance(obj, tuple):
            return tuple(walk(v) for v in obj)
        terms = list(obj.formula)
        picks = recipe["picks"][counter[0] % len(recipe["picks"])]
        counter[0] += 1
        return [repr(terms[j % len(terms)]) for j in dict.fromkeys(picks)] if terms else []

    spec = walk(specs)
    mode = recipe["mode"]
    keys = list(spec)
    first_tuple = next((k for k in keys if isinstance(spec[k], tuple)), None)
    first_leaf = next((k for k in keys if isinstance(spec[k], list)), None)
    if mode == "partial" and len(keys) > 1:
        del spec[keys[recipe["drop"] % len(keys)]]
    elif mode == "extra_key":
        spec["zzz"] = ["a"]
    elif mode == "long_tuple" and first_tuple is not None:
        spec[first_tuple] = spec[first_tuple] + (["a"],)
    elif mode == "leaf_for_tuple" and first_tuple is not None:
        spec[first_tuple] = list(spec[first_tuple][0])
    elif mode in ("tuple_for_leaf", "long_tuple", "leaf_for_tuple") and first_leaf is not None:
        spec[first_leaf] = (spec[first_leaf],)
    elif mode == "flat":
        return ["a"]
    elif mode == "foreign":
        k = first_leaf if first_leaf is not None else first_tuple
        if isinstance(spec[k], list):
            spec[k] = spec[k] + ["zz"]
        else:
            spec[k] = (spec[k][0] + ["zz"],) + spec[k][1:]
    return spec


def impl_specs(c):
    from formulaic import Formula, ModelSpecs
    from formulaic.formula import SimpleFormula
    from formulaic.materializers import FormulaMaterializer

    df = make_frame(c["data"])
    ctx = make_context(c)
    try:
        formula = Formula(_py_spec(c["sform"]))
        m = FormulaMaterializer.for_materializer(c["mat"])(df, context=ctx)
        mms = m.get_model_matrix(formula, ensure_full_rank=c["efr"], output=c["output"])
        specs = mms.model_spec
    except Exception as e:
        return {"error": type(e).__name__}
    if not isinstance(specs, ModelSpecs):
        return {"error": "unstructured"}
    spec_leaf = lambda s: dict(structure=_dump_structure(s), formula=[_exprs(t) for t in s.formula], enc=_dump_enc(s))
    out = {"specs": _dump_tree(specs, spec_leaf)}
    out["required_variables"] = _res(lambda: sorted(str(v) for v in specs.required_variables))
    out["datacols"] = sorted(str(x) for x in df.columns)
    out["parent"] = _dump_tree(mms, lambda mm: dict(labels=_labels(mm, c["output"]), ncols=_ncols(mm), values=_dense(mm)))
    probes, outs, mats = [], [], []
    for recipe in c["probes"]:
        ts = _probe_spec(specs, recipe)
        try:
            f = SimpleFormula.from_spec(ts)
        except Exception:
            continue  # does not parse: not a probe of the metadata
        probes.append({"parsed": _dump_tree(f, lambda sf: [_exprs(t) for t in sf]), "mode": recipe["mode"]})
        try:
            sub = specs.subset(ts)
        except Exception as e:
            outs.append({"err": type(e).__name__})
            mats.append(None)
            continue
        outs.append({"ok": _dump_tree(sub, _sub_dump)})
        try:
            m2 = sub.get_model_matrix(df, context=ctx)
            mats.append(_dump_tree(m2, lambda mm: dict(labels=_labels(mm, c["output"]), ncols=_ncols(mm), values=_dense(mm))))
        except Exception as e:
            mats.append({"mat_error": type(e).__name__ + ": " + str(e)[:120]})
    out["probes"], out["probe_out"], out["mats"] = probes, outs, mats
    return out


def request(c, o):
    if c["kind"] == "split":
        return dict(op="split", s=c["s"])
    if c["kind"] == "specs":
        if "error" in o or "harness_exception" in o:
            return dict(op="specs", specs={"node": []}, probes=[])
        return dict(op="specs", specs=o["specs"], probes=o["probes"])
    if "error" in o or "harness_exception" in o:
        return dict(op="meta", structure=[], formula=[], enc=[], probes=[], materializer=c["mat"], output=c["output"])
    uses = o.get("uses", {})
    structure = None
    if o["structure"] is not None:
        structure = []
        for r in o["structure"]:
            r = dict(r)
            exprs = [sf["e"] for st in r["sterms"] for sf in st]
            if all(uses.get(e) is not None for e in exprs):
                # which names a factor reads comes from the harness's own reading of its source text; the role and the
                # source layer of each name (C17's subject) are taken from the code's record of that factor
                def rebuild(sf):
                    if sf["vars"] is None:
                        return sf
                    rec = {d["n"]: d for d in sf["vars"]}
                    return dict(e=sf["e"], vars=[rec.get(n, dict(n=n, v=True, c=False, s=None)) for n in uses[sf["e"]]])

                r["sterms"] = [[rebuild(sf) for sf in st] for st in r["sterms"]]
            structure.append(r)
    return dict(
        op="meta",
        structure=structure,
        formula=o["formula"],
        enc=o["enc"],
        probes=o["probes"],
        history=o.get("history", []),
        materializer=c["mat"],
        output=c["output"],
    )


def agree(c, o, m):
    why = _agree(c, o, m)
    if isinstance(o, dict):
        o["_corr"] = why  # a known finding must not hide a model/implementation disagreement (see classify)
    return why


def _agree(c, o, m):
    if isinstance(m, dict) and "driver_error" in m:
        return "driver: " + m["driver_error"][:300]
    if c["kind"] == "split":
        return None if o.get("factors") == m.get("factors") else f"FACTOR_MATCHER {o.get('factors')} vs model {m.get('factors')}"
    if "error" in o:
        return None
    if c["kind"] == "specs":
        if o["required_variables"] != {"ok": m.get("required_variables")}:
            return f"ModelSpecs.required_variables: impl {o['required_variables']} vs model {m.get('required_variables')}"
        if len(o["probe_out"]) != len(m.get("probes", [])):
            return "probe count differs"
        for p, a, b in zip(o["probes"], o["probe_out"], m["probes"]):
            if a != b:
                return f"ModelSpecs.subset({p['parsed']}): impl {a} vs model {b}"
        return None
    for k in ATTRS:
        if k not in o:
            continue
        want = {"ok": m.get(k)} if k in NOFAIL else m.get(k)
        if o[k] != want:
            return f"{k}: impl {o[k]} vs model {want}"
    if not o.get("nostruct"):
        ml = m["labels"].get("ok")
        if ml is None:
            return f"labels: model {m['labels']}"
        if o["labels"] is not None:
            if o["labels"] != ml:
                return f"labels: impl {o['labels']} vs model {ml}"
        elif o["ncols"] != len(ml):
            return f"number of matrix columns: impl {o['ncols']} vs model {len(ml)}"
    if len(o["probe_out"]) != len(m["probes"]):
        return "probe count differs"
    for p, a, b in zip(o["probes"], o["probe_out"], m["probes"]):
        if a != b:
            return f"probe {p}: impl {a} vs model {b}"
    if "after" in o:
        mh = m.get("history") or {}
        mo = mh.get("out", [])
        if len(mo) != len(o["history_out"]):
            return "history length differs"
        for i, (op, a, b) in enumerate(zip(o["history"], o["history_out"], mo)):
            if a != b:
                return f"history step {i} {op}: impl {a} vs model {b}"
        ma = mh.get("after", {})
        for k in MAPPINGS:
            if o["after"][k] != {"ok": ma.get(k)}:
                return f"{k} after the history of look-ups: impl {o['after'][k]} vs model {ma.get(k)}"
        if o["after"]["lens"] != {"ok": {k: len(ma.get(k, [])) for k in MAPPINGS}}:
            return f"len() after the history of look-ups: impl {o['after']['lens']} vs model {[len(ma.get(k, [])) for k in MAPPINGS]}"
        if o["after"]["iters"] != {"ok": {k: [e[0] for e in ma.get(k, [])] for k in MAPPINGS}}:
            return f"iteration after the history of look-ups: impl {o['after']['iters']}"
    return None


# ----------------------------------------------------------------------------- oracle


def _key(ex):
    return tuple(sorted(ex))


def _blocks(o):
    """walk the structure: [(term exprs, start, stop)]"""
    out, start = [], 0
    for r in o["structure"]:
        out.append((r["term"], start, start + len(r["columns"])))
        start += len(r["columns"])
    return out, start


def _close(a, b):
    if len(a) != len(b):
        return False
    for x, y in zip(a, b):
        if len(x) != len(y):
            return False
        for u, v in zip(x, y):
            if not (abs(u - v) <= 1e-9 * max(1.0, abs(u), abs(v))):
                return False
    return True


def _denotes(s, ex, printed):
    """could the string `s` be read as the term with exprs `ex` (printed form, or Term.__eq__)?"""
    if s == printed:
        return True
    return sorted(m.group("factor") for m in FACTOR_MATCHER.finditer(s)) == sorted(ex)


def oracle(c, o):
    """first failing clause; a clause that matches a known-finding signature is reported only when
    nothing else fails (so that a known finding never masks a new failure on the same case)"""
    if c["kind"] == "split" or "error" in o or "harness_exception" in o:
        return None
    if c["kind"] == "specs":
        for why in _specs_reasons(c, o):
            return why
        return None
    if o.get("nostruct"):
        for why in _factor_reasons(c, o, None):
            return why
        if o.get("rediff"):
            # the columns of the original terms do not describe the differentiated formula: no stale answers
            for k in ("column_names", "column_indices", "term_indices", "term_slices", "term_variables", "variable_indices"):
                if "ok" in o[k]:
                    return f"after differentiate({c['rediff']}) the spec still reports {k} = {o[k]['ok']} of the original terms"
        return None
    first_known = None
    for why in _reasons(c, o):
        if _known_sig(c, o, why) is None:
            return why
        if first_known is None:
            first_known = why
    return first_known


def _known_sig(c, o, why):
    if c["kind"] != "meta" or not o.get("structure"):
        return None
    keys = [_key(r["term"]) for r in o["structure"]]
    names = [n for r in o["structure"] for n in r["columns"]]
    if why.startswith("term ranges:") and len(set(keys)) != len(keys):
        return "C10-F1"
    if why.startswith("names/labels:") and c["mat"] == "narwhals" and c["output"] != "sparse" and len(set(names)) != len(names):
        return "C10-F2"
    return None


def _factor_reasons(c, o, dup_terms):
    """the factor side (term_factors / factors / factor_terms / factor_variables / factor_contrasts), judged on the
    implementation's own maps against the formula's terms"""
    for k in ("term_factors", "factors", "factor_terms", "factor_contrasts"):
        if "err" in o[k]:
            yield f"factor maps: {k} raised {o[k]['err']}"
            return
    fterms = o["fterms"]  # per formula term: [[expr, eval_method]]
    tf = {_key(t): set(fs) for t, fs in o["term_factors"]["ok"]}
    allf = set(o["factors"]["ok"])
    ft = {f: set(ts) for f, ts in o["factor_terms"]["ok"]}
    want_tf = {}
    for t in fterms:
        want_tf.setdefault(_key([e for e, _ in t]), set()).update(e for e, _ in t)
    if tf != want_tf:
        yield f"factor maps: term_factors {o['term_factors']['ok']} is not 'every term -> its own factors' {sorted(map(str, want_tf.items()))}"
    want_all = set(e for t in fterms for e, _ in t)
    if allf != want_all:
        yield f"factor maps: factors {sorted(allf)} != the factors of the formula's terms {sorted(want_all)}"
    if set(ft) != allf:
        yield f"factor maps: factor_terms has keys {sorted(ft)}, the factors are {sorted(allf)}"
    for f in sorted(allf):
        want = {":".join(k) for k in want_tf if f in k}
        if ft.get(f, set()) != want:
            yield f"factor maps: factor_terms[{f!r}] = {sorted(ft.get(f, ()))}, the terms containing that factor are {sorted(want)}"
    for k, fs in tf.items():  # mutually inverse
        for f in fs:
            if ":".join(k) not in ft.get(f, set()):
                yield f"factor maps: {f!r} is in term_factors[{':'.join(k)}] but that term is not in factor_terms[{f!r}]"
    if o.get("structure") is None:
        return
    fv = o["factor_variables"]
    if "err" in fv:
        if any(sf["vars"] is None for r in o["structure"] for st in r["sterms"] for sf in st):
            return  # a recorded factor without variables: the code as it is raises (modelled); no clause of the property
        yield f"factor maps: factor_variables raised {fv['err']}"
        return
    fv = {f: [v[0] for v in vs] for f, vs in fv["ok"]}
    if set(fv) != allf:
        yield f"factor maps: factor_variables has keys {sorted(fv)}, the factors are {sorted(allf)}"
    # a factor's variables are the names it reads, for every factor that was evaluated (it has a recorded scoped factor)
    recorded = {sf["e"] for r in o["structure"] for st in r["sterms"] for sf in st}
    uses, scope = o.get("uses") or {}, set(o["scope"])
    for f in sorted(allf):
        rec = sorted(set(o["fvars"].get(f, []))) if f in recorded else []
        if sorted(fv.get(f, [])) != rec:
            yield f"factor maps: factor_variables[{f!r}] = {sorted(fv.get(f, []))}, the evaluated factor recorded {rec}"
        if f in recorded and uses.get(f) is not None:
            want = sorted(v for v in uses[f] if v.split(".")[0] in scope)
            got = sorted(v for v in fv.get(f, []) if v.split(".")[0] in scope)
            if got != want:
                yield f"factor maps: factor_variables[{f!r}] = {got}, but the source of the factor reads {want}"
    # term_variables[t] is the union of factor_variables over the factors of t that were evaluated for t
    tv = {_key(t): set(v[0] for v in vs) for t, vs in o["term_variables"]["ok"]}
    for r in o["structure"]:
        k = _key(r["term"])
        if dup_terms and k in dup_terms:
            continue
        want = set(v for st in r["sterms"] for sf in st for v in fv.get(sf["e"], []))
        if tv.get(k) != want:
            yield f"factor maps: term_variables[{':'.join(r['term'])}] = {sorted(tv.get(k, ()))} but its evaluated factors' variables are {sorted(want)}"
    # variables / variables_by_source / required_variables
    for k in ("variables", "variables_by_source", "required_variables"):
        if "err" in o[k]:
            yield f"variables: {k} raised {o[k]['err']}"
            return
    allv = {v[0]: v for v in o["variables"]["ok"]}
    want_v = set(x for vs in tv.values() for x in vs)
    if not dup_terms and set(allv) != want_v:
        yield f"variables: variables {sorted(allv)} != union of term_variables {sorted(want_v)}"
    by = {k: set(vs) for k, vs in o["variables_by_source"]["ok"]}
    flat = [v for vs in by.values() for v in vs]
    if len(flat) != len(set(flat)) or set(flat) != set(allv):
        yield f"variables: variables_by_source {o['variables_by_source']['ok']} does not partition variables {sorted(allv)}"
    for k, vs in by.items():
        for v in vs:
            if v in allv and allv[v][3] != k:
                yield f"variables: {v!r} is filed under source {k!r} but its source is {allv[v][3]!r}"
    want_req = sorted(v for v in allv if allv[v][3] == "data")
    if o["required_variables"]["ok"] != want_req:
        yield f"variables: required_variables {o['required_variables']['ok']} != the variables drawn from the data {want_req}"
    cols = set(o["datacols"])
    for v in want_req:
        if v not in cols:
            yield f"variables: required variable {v!r} is not a column of the data"


def _reasons(c, o):
    for k in ATTRS:
        if k in o and "err" in o[k] and k != "factor_variables":
            yield f"attribute {k} raised {o[k]['err']} on a materialized spec"
            return
    yield from _history_reasons(c, o)
    blocks, total = _blocks(o)
    names = [n for r in o["structure"] for n in r["columns"]]
    column_names = o["column_names"]["ok"]
    term_indices = o["term_indices"]["ok"]
    term_slices = o["term_slices"]["ok"]
    # (1) reported names = actual labels
    if column_names != names:
        yield f"column_names {column_names} differ from the recorded structure columns {names}"
    if o["labels"] is not None:
        if o["labels"] != column_names:
            yield f"names/labels: matrix labels {o['labels']} != column_names {column_names}"
    if o["ncols"] != len(column_names):
        yield f"names/labels: matrix has {o['ncols']} columns, column_names lists {len(column_names)}"
    # (2) term ranges
    cat = [i for _, v in term_indices for i in v]
    if cat != list(range(total)):
        yield f"term ranges: term_indices values concatenate to {cat}, not 0..{total - 1}"
    keys = [_key(t) for t, _, _ in blocks]
    dup_terms = {k for k in keys if keys.count(k) > 1}
    entries = {}
    for t, v in term_indices:
        if v != list(range(v[0], v[0] + len(v))) if v else False:
            yield f"term ranges: term_indices[{t}] = {v} is not contiguous"
        entries[_key(t)] = v
    for bt, a, b in blocks:
        if _key(bt) not in dup_terms and entries.get(_key(bt)) != list(range(a, b)):
            yield f"term ranges: term_indices[{bt}] = {entries.get(_key(bt))} is not the block [{a},{b}) of that term"
    for (t, sl), (_, v) in zip(term_slices, term_indices):
        if list(range(sl[0], sl[1])) != v:
            yield f"term ranges: term_slices[{t}] = {sl} does not select {v}"
    # (3) lookups
    printed = o["printed"]
    rng_of = {}
    for (t, a, b) in blocks:
        rng_of[_key(t)] = (a, b)
    for p, r in zip(o["probes"], o["probe_out"]):
        if p["k"] == "term":
            k = _key(p["t"])
            if k in dup_terms or k not in rng_of:
                continue
            a, b = rng_of[k]
            want_sl = [a, b] if b > a else [0, 0]
            if (r["ti"] != {"ok": list(range(a, b))} or r["ts"] != {"ok": want_sl} or r["gs"] != {"ok": want_sl + [None]}
                    or r["in"] != {"ok": True} or r["get"] != {"ok": list(range(a, b))}):
                yield f"lookup by term object {p['t']}: got {r}, its columns are [{a},{b})"
        elif p["k"] == "str":
            s = p["s"]
            owners = [i for i, pr in enumerate(printed) if pr == s]
            if len(owners) == 1 and _key(blocks[owners[0]][0]) not in dup_terms:
                a, b = blocks[owners[0]][1], blocks[owners[0]][2]
                # another term that the string equally denotes (Term.__eq__) makes the request ambiguous
                others = [j for j, (t, _, _) in enumerate(blocks) if j != owners[0] and _denotes(s, t, printed[j])]
                if not others:
                    want_sl = [a, b] if b > a else [0, 0]
                    if (r["ti"] != {"ok": list(range(a, b))} or r["ts"] != {"ok": want_sl} or r["gs"] != {"ok": want_sl + [None]}
                            or r["in"] != {"ok": True} or r["get"] != {"ok": list(range(a, b))}):
                        yield f"lookup by printed form {s!r}: got {r}, the term's columns are [{a},{b})"
            pos = [i for i, n in enumerate(names) if n == s]
            if len(pos) == 1:
                if r["ci"] != {"ok": pos[0]} or r["gci"] != {"ok": [pos[0]]}:
                    yield f"lookup by column name {s!r}: got {r}, the column is at {pos[0]}"
                if not any(_denotes(s, t, printed[j]) for j, (t, _, _) in enumerate(blocks)):
                    if r["gs"] != {"ok": [pos[0], pos[0] + 1, None]}:
                        yield f"lookup by column name {s!r}: get_slice gave {r['gs']}, the column is at {pos[0]}"
        elif p["k"] == "cols":
            if all(names.count(n) == 1 for n in p["names"]):
                if r != {"ok": [names.index(n) for n in p["names"]]}:
                    yield f"lookup by column names {p['names']}: got {r}"
        elif p["k"] == "ident":
            # a column position selects exactly that column; a slice is handed back as it is
            if p["kind"] == "int" and 0 <= p["i"] < total and not p.get("bool"):
                if r["gs"] != {"ok": [p["i"], p["i"] + 1, None]}:
                    yield f"lookup by column position {p['i']}: get_slice gave {r['gs']}"
            elif p["kind"] == "slice" and r["gs"] != {"ok": [p["a"], p["b"], p["c"]]}:
                yield f"get_slice(slice({p['a']}, {p['b']}, {p['c']})) gave {r['gs']}"
        elif p["k"] == "tidx":
            ks = _requested_order(p)
            if ks is None or any(k in dup_terms or k not in rng_of for k in ks):
                continue
            want = [i for k in ks for i in range(*rng_of[k])]
            if r != {"ok": want}:
                yield f"get_term_indices({p['spec']}, ordering={p['ordering']}) = {r}, the terms' columns are {want}"
    # (4) variables
    vi = o["variable_indices"]
    if "err" in vi:
        yield f"variable indices: raised {vi['err']}"
        vi = []
    else:
        vi = vi["ok"]
    vi = {k: v for k, v in vi}
    allvars = set(x for vs in o["fvars"].values() for x in vs) | set(vi)
    for v in sorted(allvars):
        if any(_key(t) in dup_terms and any(v in o["fvars"].get(e, []) for e in t) for (t, a, b) in blocks):
            continue  # used by a repeated term: which row's columns count is the subject of C10-F1 (clause 2)
        want = [i for (t, a, b) in blocks for i in range(a, b) if any(v in o["fvars"].get(e, []) for e in t)]
        want = sorted(set(want))
        if vi.get(v, []) != want:
            yield f"variable indices: variable_indices[{v!r}] = {vi.get(v)}, terms using it own columns {want}"
    for p, r in zip(o["probes"], o["probe_out"]):
        if p["k"] == "var" and p["s"] in vi:
            if r["vi"] != {"ok": vi[p["s"]]} or r["gvi"] != {"ok": vi[p["s"]]}:
                yield f"variable indices: lookup of {p['s']!r} gave {r}"
    # (4b) the same clause against the harness's own reading of the factors' source text (`source_uses`): "the terms
    # using that variable" are the terms one of whose factors reads the name. Only names that resolve in the data, the
    # user context or the transforms namespace are judged (what else a Python expression may read -- builtins -- is
    # not a variable the property speaks about); a variable is judged only if every factor of every term was decidable.
    uses = o.get("uses")
    if uses is not None and all(uses.get(e) is not None for (t, a, b) in blocks for e in t):
        scope = set(o["scope"])
        judged = {v for vs in uses.values() for v in vs} | set(vi)
        wanted = {}
        for v in sorted(judged):
            if v.split(".")[0] not in scope:
                continue
            if any(_key(t) in dup_terms and any(v in uses[e] or v in o["fvars"].get(e, []) for e in t) for (t, a, b) in blocks):
                continue  # C10-F1, as above
            want = sorted(set(i for (t, a, b) in blocks for i in range(a, b) if any(v in uses[e] for e in t)))
            wanted[v] = want
            if vi.get(v, []) != want:
                users = [":".join(t) for (t, a, b) in blocks if any(v in uses[e] for e in t)]
                yield (f"variable indices: variable_indices[{v!r}] = {vi.get(v)}, but the terms whose source reads {v!r} "
                       f"({users}) own columns {want}")
        for p, r in zip(o["probes"], o["probe_out"]):
            if p["k"] == "var" and wanted.get(p["s"]):
                want = wanted[p["s"]]
                if r["vi"] != {"ok": want} or r["gvi"] != {"ok": want}:
                    yield f"variable indices: lookup of {p['s']!r} gave {r}, the terms reading it own columns {want}"
    # (4c) the factor side and the variable sets
    yield from _factor_reasons(c, o, dup_terms)
    # (5) subset regenerates the parent's columns
    subs = iter(o["subs"])
    for p, r in zip(o["probes"], o["probe_out"]):
        if p["k"] != "subset":
            continue
        rec = next(subs)
        ks = _spec_keys(p)
        if ks is None:
            continue  # a structured request: an error is the documented outcome
        if any(k not in rng_of for k in ks):
            continue  # foreign term: an error is the documented outcome
        if any(k in dup_terms for k in ks) or len(set(ks)) != len(ks):
            continue
        if "err" in r:
            yield f"subset({p['spec']}) raised {r['err']} although every term belongs to the spec"
            continue
        fk = [_key(t) for t in r["ok"]["formula"]]
        if sorted(fk) != sorted(ks):
            yield f"subset({p['spec']}): formula of the subset is {r['ok']['formula']}"
        # "the column ordering follows the ordering of the terms in terms_spec": as given (ordering none / a
        # SimpleFormula), or stably by degree (the default)
        order = _requested_order(p)
        if order is not None and fk != order:
            yield f"subset({p['spec']}, ordering={p['ordering']}): the subset's terms are {r['ok']['formula']}, requested order {order}"
        if [_key(x["term"]) for x in r["ok"]["rows"]] != fk:
            yield f"subset({p['spec']}): structure rows {[x['term'] for x in r['ok']['rows']]} do not follow its formula {r['ok']['formula']}"
        idx = [i for k in fk for i in range(*rng_of[k])]
        want_names = [names[i] for i in idx]
        if r["ok"]["names"] != want_names:
            yield f"subset({p['spec']}): column_names {r['ok']['names']}, parent's columns for those terms {want_names}"
        if "mat_error" in rec:
            yield f"subset({p['spec']}).get_model_matrix failed: {rec['mat_error']}"
            continue
        if c["mat"] == "narwhals" and c["output"] != "sparse" and len(set(want_names)) != len(want_names):
            continue  # name-keyed assembly cannot hold the repeated label (C10-F2, reported by clause 1)
        if rec["labels"] is not None and rec["labels"] != want_names:
            yield f"subset({p['spec']}): regenerated labels {rec['labels']}, parent's {want_names}"
        if rec["ncols"] != len(want_names):
            yield f"subset({p['spec']}): regenerated {rec['ncols']} columns, parent has {len(want_names)} for those terms"
        if not _close(rec["values"], [o["values"][i] for i in idx]) if len(o["values"]) == total else False:
            yield f"subset({p['spec']}): regenerated values differ from the parent's columns {idx}"
        if len(rec["parent2"]) == total and not _close(rec["values2"], [rec["parent2"][i] for i in idx]):
            yield f"subset({p['spec']}): on new data the regenerated values differ from the parent's columns {idx}"
    return


def _history_reasons(c, o):
    """look-ups do not change the metadata: after any history of look-ups (by Term, printed form, column name; through
    every accessor; succeeding or failing; repeated) the per-term / per-column mappings read exactly as before — same
    keys, one per term of the spec, same order, same ranges, len() and iteration included — and a repeated look-up is
    answered as it was answered the first time"""
    if "after" not in o:
        return
    a = o["after"]
    when = "read for the first time after" if o.get("hist_first") else "read again after"
    for k in MAPPINGS + ["lens", "iters"]:
        if "err" in a[k]:
            yield f"look-up history: {k} {when} {len(o['history'])} look-ups raised {a[k]['err']}"
            return
    for k in MAPPINGS:
        if a[k] != o[k]:
            yield f"look-up history: {k} changed between two readings with only look-ups in between: {o[k]} then {a[k]}"
    keys = []
    for r in o["structure"]:
        if _key(r["term"]) not in [_key(t) for t in keys]:
            keys.append(r["term"])
    for k in ("term_indices", "term_slices", "term_variables"):
        got = [e[0] for e in a[k]["ok"]]
        if [_key(t) for t in got] != [_key(t) for t in keys]:
            yield (f"look-up history: {k} {when} {len(o['history'])} look-ups has keys {got}; the spec has the terms "
                   f"{keys} (one key per term, in this order)")
        if a["lens"]["ok"][k] != len(keys):
            yield f"look-up history: len({k}) = {a['lens']['ok'][k]} {when} the look-ups; the spec has {len(keys)} different terms"
        if a["iters"]["ok"][k] != got:
            yield f"look-up history: iterating {k} gives {a['iters']['ok'][k]}, its items have the keys {got}"
    ncol = len({n for r in o["structure"] for n in r["columns"]})
    if a["lens"]["ok"]["column_indices"] != ncol or a["iters"]["ok"]["column_indices"] != [e[0] for e in a["column_indices"]["ok"]]:
        yield f"look-up history: column_indices has len {a['lens']['ok']['column_indices']} / keys {a['iters']['ok']['column_indices']}; {ncol} different column names"
    cat = [i for _, v in a["term_indices"]["ok"] for i in v]
    total = sum(len(r["columns"]) for r in o["structure"])
    if len({_key(r["term"]) for r in o["structure"]}) == len(o["structure"]) and cat != list(range(total)):
        yield f"look-up history: term_indices {when} the look-ups concatenates to {cat}, not 0..{total - 1} (contiguous, disjoint, covering)"
    # repeated look-ups answer alike, and like the same look-up of the first pass
    seen = {}
    for i, (op, r) in enumerate(zip(o["history"], o["history_out"])):
        sig = canonical_json({x: y for x, y in op.items() if x not in ("pi", "f")})
        if sig in seen and seen[sig][1] != r:
            yield f"look-up history: step {i} {op} answered {r}; the same look-up answered {seen[sig][1]} at step {seen[sig][0]}"
        seen.setdefault(sig, (i, r))
        if op.get("pi") is not None and op.get("f") is not None:
            first = o["probe_out"][op["pi"]].get(op["f"])
            if first is not None and first != r:
                yield f"look-up history: step {i} {op} answered {r}; the same look-up outside the history answered {first}"


def _spec_keys(p):
    """the requested terms of a tidx/subset probe as sorted-factor keys (None for a structured request)"""
    sp = p["spec"]
    if sp["p"] == "structured":
        return None
    if sp["p"] == "formula":
        return [_key(t) for t in sp["terms"]]
    return [_key(t["t"]) for t in sp["terms"]]


def _requested_order(p):
    sp = p["spec"]
    if sp["p"] == "formula":
        return [_key(t) for t in sp["terms"]]
    if sp["p"] != "terms":
        return None
    if p["ordering"] == "none":
        return [_key(t["t"]) for t in sp["terms"]]
    degree = lambda t: sum(1 for x in t["lit"] if not x)
    if p["ordering"] == "degree":
        return [_key(t["t"]) for t in sorted(sp["terms"], key=degree)]
    # "sort": by degree, then by the sorted factor expressions
    return [_key(t["t"]) for t in sorted(sp["terms"], key=lambda t: (degree(t), sorted(t["t"])))]


def _specs_reasons(c, o):
    """ModelSpecs.subset: every part of the result regenerates exactly the parent part's columns for the requested terms"""
    parent_specs = dict(_leaves(o["specs"]))
    parent_vals = dict(_leaves(o["parent"]))
    # the variables required by the whole set of specs are the data columns some part reads
    rv = o["required_variables"]
    if "err" in rv:
        yield f"ModelSpecs.required_variables raised {rv['err']}"
    else:
        want = sorted({d["n"] for ps in parent_specs.values() for r in (ps["structure"] or ()) for st in r["sterms"]
                       for sf in st for d in (sf["vars"] or ()) if d["s"] == "data"})
        if rv["ok"] != want:
            yield f"ModelSpecs.required_variables = {rv['ok']}, the parts read the data columns {want}"
    for p, r, mat in zip(o["probes"], o["probe_out"], o["mats"]):
        req = _leaves(p["parsed"]) if "node" in p["parsed"] else None
        if req is None:
            continue  # no structure: an error is the documented outcome
        ok_request = True
        for path, terms in req:
            ps = parent_specs.get(path)
            if ps is None or ps["structure"] is None:
                ok_request = False
                break
            have = [_key(x["term"]) for x in ps["structure"]]
            ks = [_key(t) for t in terms]
            if any(k not in have for k in ks) or len(set(ks)) != len(ks) or len(set(have)) != len(have):
                ok_request = False
                break
        if not ok_request:
            continue  # different structure / foreign or repeated terms: an error is the documented outcome
        if "err" in r:
            yield f"ModelSpecs.subset({p['parsed']}) raised {r['err']} although every part names terms of the matching part"
            continue
        got = dict(_leaves(r["ok"]))
        if sorted(map(str, got)) != sorted(str(path) for path, _ in req):
            yield f"ModelSpecs.subset({p['parsed']}): result has parts {sorted(map(str, got))}, requested {[path for path, _ in req]}"
            continue
        gm = dict(_leaves(mat)) if mat is not None and "mat_error" not in mat else None
        if mat is not None and "mat_error" in mat:
            yield f"ModelSpecs.subset({p['parsed']}).get_model_matrix failed: {mat['mat_error']}"
        for path, terms in req:
            ps, pv, g = parent_specs[path], parent_vals.get(path), got[path]
            rng_of, start = {}, 0
            for x in ps["structure"]:
                rng_of[_key(x["term"])] = (start, start + len(x["columns"]))
                start += len(x["columns"])
            pnames = [n for x in ps["structure"] for n in x["columns"]]
            fk = [_key(t) for t in g["formula"]]
            if fk != [_key(t) for t in terms]:
                yield f"ModelSpecs.subset: part {path} has terms {g['formula']}, requested {terms}"
                continue
            idx = [i for k in fk for i in range(*rng_of[k])]
            want_names = [pnames[i] for i in idx]
            if g["names"] != want_names:
                yield f"ModelSpecs.subset: part {path} has column_names {g['names']}, the parent part's columns for those terms are {want_names}"
            if gm is None or pv is None or path not in gm:
                continue
            if c["mat"] == "narwhals" and c["output"] != "sparse" and len(set(want_names)) != len(want_names):
                continue
            mv = gm[path]
            if mv["labels"] is not None and mv["labels"] != want_names:
                yield f"ModelSpecs.subset: part {path} regenerates labels {mv['labels']}, parent's {want_names}"
            if mv["ncols"] != len(want_names):
                yield f"ModelSpecs.subset: part {path} regenerates {mv['ncols']} columns, parent has {len(want_names)} for those terms"
            elif len(pv["values"]) == start and not _close(mv["values"], [pv["values"][i] for i in idx]):
                yield f"ModelSpecs.subset: part {path}: regenerated values differ from the parent's columns {idx}"


def classify(c, o, why):
    if c["kind"] != "meta" or not o.get("structure"):
        return None
    if o.get("_corr"):  # the model did not reproduce the implementation on this case: never suppress
        return None
    return _known_sig(c, o, why)


LEVEL_TEXT = (
    "Proof: 26 Lean theorems (Props/C10.lean) about the executable models of ModelSpec's derived metadata (Model/SpecMeta.lean) "
    "and of ModelSpecs.subset (Model/SpecsMeta.lean), for ALL structures / formulas / requests: column names = matrix labels "
    "(positional assembly: always; name-keyed assembly: iff the names are distinct; which assembly each materializer/output "
    "uses is decided against a table probed on the live package); term ranges are the consecutive blocks of the structure rows "
    "and partition [0, ncols); lookups by Term object (any factor order, hand-made with repeated factors), by printed form "
    "(Python dict probing modelled as hash-then-__eq__, FACTOR_MATCHER modelled as the regex behaves), by column name, through "
    "[] / in / .get(), and get_slice with EVERY kind of key (int, slice, Term, str, other hashable -> ValueError, unhashable -> "
    "TypeError, unmaterialized spec -> RuntimeError) return exactly the block/position; variable_indices[v] is exactly the "
    "increasing list of columns owned by rows using v, variable_terms is the exact reverse of term_variables; the factor side: "
    "term_factors / factors / factor_terms are each term's own factors and the exact reverse map (f in term_factors[t] <=> t in "
    "factor_terms[f]; for EVERY formula, repeated terms included), factor_variables[f] is exactly the union of what the scoped factors with expression f recorded "
    "(TypeError iff a record is None), term_variables[t] is the union of factor_variables over the factors evaluated for t, "
    "variables_by_source partitions variables by source and required_variables is the class 'data'; subset: the order of a "
    "request is a stable sort by degree / as given / sorted (request_order), subset succeeds iff every requested term is a term "
    "of the spec (else ValueError, never KeyError), returns the parent's rows of those terms in the request's order, two "
    "requests naming the same terms in any order / factor order give rearrangements of each other, a request of all terms "
    "gives the spec back, the subset's formula holds the PARENT'S OWN terms, and regenerated blocks are the parent's blocks; "
    "ModelSpecs.subset is _map of the request with, at every part, the subset of the spec at the same path, and each way it "
    "fails (no structure, foreign key, index beyond a tuple, tuple/nested specs at a part's path, foreign term) is modelled; "
    "ModelSpecs.required_variables is the union of the parts'. "
    "Histories: the cached mappings are the state of a state machine with one transition per accessor; for EVERY sequence of "
    "look-ups the state is unchanged and every call is answered as if it were the first (lookup_history_pure), and on the state "
    "of a materialized spec each transition is the look-up function the other theorems describe (history_step_is_lookup). "
    "The models are tied to the code by a differential correspondence on every run; regenerated VALUES of a subset are checked "
    "on the real code by the oracle."
)
LEVEL_NOTE = (
    "Trusted: Lean kernel + propext/Quot.sound/Classical.choice; the hand models of model_spec.py validated by correspondence on "
    "generated formulas (non-alphabetical interactions, zero-column terms, multi-column transforms, adversarial column names, "
    "Python-call factors with positional/keyword/starred arguments over data columns and context values, "
    "pandas/numpy/sparse, pandas/narwhals materializers, unmaterialized specs, structured formulas); hash(str) injective; "
    "which columns a term generates, what a replayed row evaluates to, the parse of a request up to ordering, role/source of "
    "a variable are parameters (C02/C03/C04/C01/C17). Not modelled: factor_contrasts values (C11), required_variables of an "
    "unmaterialized spec (C17), from_spec/update/get_model_matrix/differentiate plumbing (C05/C06/C20)."
)
