"""C19 — Structured, layered-mapping and formula containers obey their container laws.

Correspondence stream `c19` (three request kinds, dispatched on "op"):
  st  random nestings (depth <= 4) of keyed/tuple structure built through the public API of the REAL
      `Structured` (constructor, or item assignment when the root key is not last), then
      `_map` (with a logging two-argument function), `_flatten`, tuple-path `__getitem__`, `_simplify`
      (all flag combinations, twice), `_update`, `_merge` (custom merger), `__setitem__`;
  lm  random stacks of plain-dict / nested named `LayeredMapping` layers with overlapping keys and a
      random sequence (<= 20) of `__setitem__`, `__delitem__`, `with_layers` on the REAL object, observing
      `dict` view / `len` / iteration after every step, `in`/`[]`/`get_with_layer_name` at the end;
  sf  random term lists and a random sequence (<= 20) of `insert`, `__setitem__`, `__delitem__` (index
      and slice), `append`, `extend`, `pop`, `reverse` on the REAL `SimpleFormula` (orderings degree/none/sort).
The same inputs go to the Lean models (`Model.St`, `Model.LMap`, `Model.SF`); outputs must be equal.

The oracle re-states the container laws in Python directly on the implementation's observables
(independent reference computations on plain dicts/lists; it never looks at the model).
"""
from __future__ import annotations

import copy
import itertools
from collections import Counter

PROPERTY = "C19"
ENGINE = "c19"
REQUIRED_THEOREMS = [
    "map_log_is_flatten",
    "map_shape",
    "map_is_dict_map",
    "flatten_map",
    "flatten_map_perm",
    "map_paths_truthful",
    "simplify_idempotent",
    "simplify_flatten",
    "simplify_default_is_simpObj",
    "update_is_dict_merge",
    "merge_is_keywise",
    "merge_tuples_concatenate",
    "merge_fuel_sufficient",
    "lm_lookup_topfirst",
    "lm_writes_private",
    "lm_set_get",
    "lm_len_iter_consistent",
    "lm_named_lookup_consistent",
    "lm_with_layers_stack",
    "formula_sorted_invariant",
    "formula_degree_sorted",
    "formula_reorder_stable",
    "formula_insert_stable",
    "formula_delete_exact",
]
TRUSTED = [
    "modelled, not verified: CPython dict insertion order, `**kwargs` binding of the `root` keyword, tuple/generator "
    "evaluation order, `sorted` stability, list index conventions, `collections.abc` mixins "
    "(MutableMapping.__contains__, MutableSequence.append/extend/pop/reverse)",
    "not modelled: `Structured` subclasses re-preparing items (`_prepare_item`), `_metadata`, `_map(recurse=False)`, "
    "the default merger of `_merge` (the correspondence passes an explicit merger), `named_layers` caching, "
    "aliasing between a `LayeredMapping` and older references to its layers (operations act on the outermost object only), "
    "`Term.__lt__` against non-Term operands",
]
ASSUMPTIONS = [
    "every Structured has unique keys that do not start with '_' (it stores a dict; the constructor rejects '_' keys)",
    "leaves are neither tuples nor Structured instances",
]
RULE = (
    "st: random trees over keys {root,a,b,c,d}, depth<=4, tuples of length 0..3 (also tuple-in-tuple), root key "
    "last (constructor) or elsewhere (item assignment); merge partners derived from the tree by key drops/additions, "
    "leaf->wrapped leaf upcasts and occasional tuple/leaf misalignment; lm: 0..4 layers (dict | nested named "
    "LayeredMapping, depth<=3) over keys k0..k5 with values int|None, ops set/del/with_layers(prepend,inplace,name); "
    "sf: terms of degree 0..3 over a..f, orderings degree|none|sort, ops with in/out-of-range and negative indices, "
    "non-Term values. non-trivial = st with a nested node or tuple / lm with >=2 layers sharing a key or any op / "
    "sf with >=1 op; distinct by canonical JSON"
)

# ----------------------------------------------------------------------------- generators

KEYS = ["root", "a", "b", "c", "d"]


class _Fresh:
    def __init__(self):
        self.n = 0

    def leaf(self, rng):
        self.n += 1
        if rng.random() < 0.03:
            return {"l": "bad"}
        return {"l": f"x{self.n}"}


def gen_val(rng, depth, fresh, top=False):
    r = rng.random()
    if depth <= 0 or (not top and r < 0.4):
        return fresh.leaf(rng)
    if not top and r < 0.62:
        n = rng.choice([0, 1, 1, 2, 2, 3])
        return {"t": [gen_val(rng, depth - 1, fresh) for _ in range(n)]}
    return gen_node(rng, depth, fresh)


def gen_node(rng, depth, fresh):
    shape = rng.random()
    if shape < 0.25:
        keys = ["root"]  # exercises the unwrapping loop of _simplify
    else:
        keys = [k for k in KEYS if rng.random() < 0.45]
    rng.shuffle(keys)
    if "root" in keys and rng.random() < 0.7:
        keys.remove("root")
        keys.append("root")  # what the constructor produces
    return {"n": [[k, gen_val(rng, depth - 1, fresh)] for k in keys]}


def vary(rng, v, fresh, depth):
    """a merge partner for v: mostly aligned with it"""
    r = rng.random()
    if "l" in v:
        if r < 0.8 or depth <= 0:
            return fresh.leaf(rng)
        if r < 0.93:
            return {"n": [["root", fresh.leaf(rng)], ["e", fresh.leaf(rng)]][: rng.choice([1, 2])]}
        return {"t": [fresh.leaf(rng)]}
    if "t" in v:
        if r < 0.9:
            return {"t": [gen_val(rng, 1, fresh) for _ in range(rng.choice([0, 1, 2]))]}
        return fresh.leaf(rng)
    items = []
    for k, c in v["n"]:
        if rng.random() < 0.7:
            items.append([k, vary(rng, c, fresh, depth - 1)])
    for k in ["e", "a", "root"]:
        if rng.random() < 0.2 and all(k != kk for kk, _ in items):
            items.append([k, gen_val(rng, 1, fresh)])
    if r < 0.06:
        return fresh.leaf(rng)
    rng.shuffle(items)
    return {"n": items}


def gen_st(rng):
    fresh = _Fresh()
    depth = rng.choice([1, 2, 2, 3, 3, 4, 4])
    tree = gen_node(rng, depth, fresh)
    objs = [tree] + [vary(rng, tree, fresh, depth) for _ in range(rng.choice([0, 1, 1, 2]))]
    if rng.random() < 0.12:
        objs = [gen_val(rng, 2, fresh) for _ in range(rng.choice([0, 1, 2, 3]))]
    if rng.random() < 0.08:
        objs = [{"t": [fresh.leaf(rng) for _ in range(rng.choice([0, 1, 2]))]} for _ in range(rng.choice([1, 2, 3]))]
    kw = [[k, gen_val(rng, 2, fresh)] for k in ["a", "b", "e", "f"] if rng.random() < 0.35]
    if rng.random() < 0.05:
        kw.append(["_bad", fresh.leaf(rng)])
    rng.shuffle(kw)
    upd = {"root": gen_val(rng, 2, fresh) if rng.random() < 0.4 else None, "kw": kw}
    sets = [[rng.choice(["root", "a", "b", "e", "_p"]), gen_val(rng, 1, fresh)] for _ in range(rng.choice([0, 1, 2, 3]))]
    return {"k": "st", "tree": tree, "objs": objs, "upd": upd, "sets": sets}


LKEYS = ["k0", "k1", "k2", "k3", "k4", "k5"]
NAMES = [None, None, "", "data", "ctx", "x"]


def gen_dict(rng):
    ks = [k for k in LKEYS if rng.random() < 0.4]
    rng.shuffle(ks)
    return {"d": [[k, rng.choice([None, 0, 1, 2, 3, 4, 5, 6, 7])] for k in ks]}


def gen_layer(rng, depth):
    if depth <= 0 or rng.random() < 0.6:
        return gen_dict(rng)
    return {
        "name": rng.choice(NAMES),
        "m": gen_dict(rng)["d"][:2],
        "layers": [gen_layer(rng, depth - 1) for _ in range(rng.choice([0, 1, 2, 3]))],
    }


def gen_lm(rng):
    layers = [gen_layer(rng, 3) if rng.random() > 0.08 else None for _ in range(rng.choice([0, 1, 2, 2, 3, 4]))]
    ops = []
    for _ in range(rng.choice([0, 2, 5, 10, 20])):
        r = rng.random()
        if r < 0.45:
            ops.append({"o": "set", "k": rng.choice(LKEYS), "v": rng.choice([None, 10, 11, 12, 13])})
        elif r < 0.8:
            ops.append({"o": "del", "k": rng.choice(LKEYS)})
        else:
            ops.append(
                {
                    "o": "with",
                    "layers": [gen_layer(rng, 2) if rng.random() > 0.15 else None for _ in range(rng.choice([0, 1, 1, 2]))],
                    "prepend": rng.random() < 0.6,
                    "inplace": rng.random() < 0.5,
                    "name": rng.choice(NAMES),
                }
            )
    return {"k": "lm", "name": rng.choice(NAMES), "layers": layers, "ops": ops, "probe": LKEYS + ["zz"]}


VARS = ["a", "b", "c", "d", "e", "f"]


def gen_term(rng):
    deg = rng.choice([0, 1, 1, 1, 2, 2, 3])
    fs = [{"x": v, "m": "lookup"} for v in rng.sample(VARS, deg)]
    if deg == 0 or rng.random() < 0.15:
        fs.insert(rng.randrange(len(fs) + 1), {"x": rng.choice(["1", "2", "0.5"]), "m": "literal"})
    if rng.random() < 0.1 and fs:
        fs[rng.randrange(len(fs))]["m"] = "python"
    return fs


def gen_sf(rng):
    terms = [gen_term(rng) for _ in range(rng.choice([0, 1, 2, 3, 4, 6]))]
    ops = []

    def val():
        return gen_term(rng) if rng.random() > 0.07 else None

    for _ in range(rng.choice([1, 3, 6, 12, 20])):
        r = rng.random()
        i = rng.choice([-9, -3, -2, -1, 0, 0, 1, 2, 3, 5, 9])
        if r < 0.3:
            ops.append({"o": "insert", "i": i, "t": val()})
        elif r < 0.5:
            ops.append({"o": "set", "i": i, "t": val()})
        elif r < 0.65:
            ops.append({"o": "del", "i": i})
        elif r < 0.7:
            ops.append({"o": "delslice", "a": i, "b": rng.choice([-2, 0, 1, 2, 4, 9])})
        elif r < 0.8:
            ops.append({"o": "append", "t": val()})
        elif r < 0.88:
            ops.append({"o": "extend", "ts": [val() for _ in range(rng.choice([0, 1, 2, 3]))]})
        elif r < 0.95:
            ops.append({"o": "pop", "i": rng.choice([-1, -1, 0, i])})
        else:
            ops.append({"o": "reverse"})
    return {"k": "sf", "ordering": rng.choice(["degree", "degree", "degree", "none", "sort"]), "terms": terms, "ops": ops}


def cases(rng, tier):
    n = {"quick": 500, "thorough": 8000, "search": 300}[tier]
    for i in range(n):
        r = i % 5
        if r in (0, 1):
            yield gen_st(rng)
        elif r in (2, 3):
            yield gen_lm(rng)
        else:
            yield gen_sf(rng)


def describe(c):
    if c["k"] == "st":
        return f"st,depth={_depth(c['tree'])},objs={len(c['objs'])}"
    if c["k"] == "lm":
        return f"lm,layers={len(c['layers'])},ops={min(len(c['ops']), 20) // 5 * 5}+"
    return f"sf,{c['ordering']},ops={len(c['ops']) // 5 * 5}+"


def _depth(v):
    if "l" in v:
        return 0
    if "t" in v:
        return 1 + max([_depth(x) for x in v["t"]] + [0])
    return 1 + max([_depth(x) for _, x in v["n"]] + [0])


def nontrivial(c):
    if c["k"] == "st":
        return _depth(c["tree"]) >= 2
    if c["k"] == "lm":
        return len(c["ops"]) > 0 or len([l for l in c["layers"] if l]) >= 2
    return len(c["ops"]) >= 1


# ----------------------------------------------------------------------------- impl: Structured


def _build(v):
    from formulaic.utils.structured import Structured

    if "l" in v:
        return v["l"]
    if "t" in v:
        return tuple(_build(x) for x in v["t"])
    pairs = [(k, _build(x)) for k, x in v["n"]]
    keys = [k for k, _ in pairs]
    if "root" not in keys:
        return Structured(**dict(pairs))
    if keys[-1] == "root":
        return Structured(pairs[-1][1], **dict(pairs[:-1]))
    s = Structured()
    for k, x in pairs:
        s[k] = x
    return s


def _enc(o):
    from formulaic.utils.structured import Structured

    if isinstance(o, Structured):
        return {"n": [[k, _enc(x)] for k, x in o._to_dict(recurse=False).items()]}
    if isinstance(o, tuple):
        return {"t": [_enc(x) for x in o]}
    return {"l": o}


def _flat_out(it):
    return [x if isinstance(x, str) else _enc(x) for x in it]


def _mapfn(x, ctx):
    return x + "@" + ".".join(map(str, ctx))


def _merger(*xs):
    if "bad" in xs:
        raise NotImplementedError("bad leaf")
    return "(" + "+".join(xs) + ")"


def _try(fn):
    try:
        return _enc(fn())
    except Exception as e:
        return {"error": type(e).__name__}


def impl_st(c):
    from formulaic.utils.structured import Structured

    s = _build(c["tree"])
    if _enc(s) != c["tree"]:
        raise RuntimeError("harness could not build the requested tree")
    out = {}
    log = []

    def f(x, ctx):
        log.append([x, list(ctx)])
        return _mapfn(x, ctx)

    m = s._map(f)
    out["map"] = _enc(m)
    out["log"] = log
    out["flat"] = _flat_out(s._flatten())
    out["flat_mapped"] = _flat_out(m._flatten())
    out["paths"] = [_try(lambda p=p: s[tuple(p)]) for _, p in log]
    out["unchanged_after_map"] = _enc(s) == c["tree"]
    combos = [(True, True), (True, False), (False, True), (False, False)]
    simp, again_default, again_same = [], [], []
    for r, u in combos:
        try:
            res = s._simplify(recurse=r, unwrap=u)
        except Exception as e:
            simp.append({"error": type(e).__name__})
            again_default.append(None)
            again_same.append(None)
            continue
        simp.append(_enc(res))
        if isinstance(res, Structured):
            again_default.append(_try(lambda: res._simplify()))
            again_same.append(_try(lambda: res._simplify(recurse=r, unwrap=u)))
        else:
            again_default.append(None)
            again_same.append(None)
    out["simp"] = simp
    out["simp_default_again"] = again_default
    out["simp_same_again"] = again_same
    out["unchanged_after_simplify"] = _enc(s) == c["tree"]
    inpl = []
    for r in (True, False):
        t = _build(c["tree"])
        try:
            res = t._simplify(recurse=r, unwrap=False, inplace=True)
            inpl.append({"res": _enc(res), "self": _enc(t), "is_self": res is t})
        except Exception as e:
            inpl.append({"error": type(e).__name__})
    out["simp_inplace"] = inpl
    out["simp_inplace_unwrap"] = _try(lambda: _build(c["tree"])._simplify(inplace=True))
    kw = {k: _build(v) for k, v in c["upd"]["kw"]}
    if c["upd"]["root"] is None:
        out["update"] = _try(lambda: s._update(**kw))
    else:
        out["update"] = _try(lambda: s._update(_build(c["upd"]["root"]), **kw))
    out["unchanged_after_update"] = _enc(s) == c["tree"]
    objs = [_build(o) for o in c["objs"]]
    out["merge"] = _try(lambda: Structured._merge(*objs, merger=_merger))
    out["merge_inputs_unchanged"] = [_enc(o) for o in objs] == c["objs"]
    t = _build(c["tree"])
    errs = []
    for k, v in c["sets"]:
        try:
            t[k] = _build(v)
            errs.append(None)
        except Exception as e:
            errs.append(type(e).__name__)
    out["sets"] = {"errs": errs, "tree": _enc(t)}
    return out


# ----------------------------------------------------------------------------- impl: LayeredMapping


def _build_layer(l, registry):
    from formulaic.utils.layered_mapping import LayeredMapping

    if l is None:
        return None
    if "d" in l:
        d = dict((k, v) for k, v in l["d"])
        registry.append(d)
        return d
    lm = LayeredMapping(*[_build_layer(x, registry) for x in l["layers"]], name=l["name"])
    for k, v in l["m"]:
        lm[k] = v
    registry.append(lm)
    return lm


def _snap(o):
    from formulaic.utils.layered_mapping import LayeredMapping

    if isinstance(o, LayeredMapping):
        return {"name": o.name, "m": [[k, v] for k, v in o._mutations.items()], "layers": [_snap(x) for x in o._layers]}
    return {"d": [[k, v] for k, v in o.items()]}


def _lm_obs(m, err):
    try:
        keys = list(m)
        view = []
        for k in keys:
            try:
                view.append([k, m[k]])
            except KeyError:
                view.append([k, "<KeyError>"])
        return {"err": err, "view": view, "len": len(m), "name": m.name}
    except Exception as e:
        return {"err": err, "broken": type(e).__name__}


def impl_lm(c):
    from formulaic.utils.layered_mapping import LayeredMapping

    registry = []
    m = LayeredMapping(*[_build_layer(l, registry) for l in c["layers"]], name=c["name"])
    before = [_snap(o) for o in registry]
    out = {"init": _lm_obs(m, None), "trace": []}
    supplied_ok = True
    for op in c["ops"]:
        err = None
        try:
            if op["o"] == "set":
                m[op["k"]] = op["v"]
            elif op["o"] == "del":
                del m[op["k"]]
            else:
                n0 = len(registry)
                new = [_build_layer(l, registry) for l in op["layers"]]
                before += [_snap(o) for o in registry[n0:]]
                m = m.with_layers(*new, prepend=op["prepend"], inplace=op["inplace"], name=op["name"])
        except Exception as e:
            err = type(e).__name__
        out["trace"].append(_lm_obs(m, err))
    supplied_ok = [_snap(o) for o in registry] == before
    out["supplied_unchanged"] = supplied_ok
    probe = []
    for k in c["probe"]:
        try:
            g = m[k]
        except KeyError:
            g = "<KeyError>"
        v, n = m.get_with_layer_name(k)
        probe.append({"k": k, "in": k in m, "get": g, "named": [v, n]})
    out["probe"] = probe
    out["items_consistent"] = (
        list(m.keys()) == list(m) and [list(kv) for kv in m.items()] == out["trace"][-1]["view"]
        if out["trace"] and "view" in out["trace"][-1]
        else True
    )
    return out


# ----------------------------------------------------------------------------- impl: SimpleFormula


def _term(t):
    from formulaic.parser.types import Factor, Term

    if t is None:
        return "not-a-term"
    return Term([Factor(f["x"], eval_method=f["m"]) for f in t])


def _terms_out(f):
    return [[dict(x=fa.expr, m=fa.eval_method.value) for fa in t.factors] for t in f]


def impl_sf(c):
    from formulaic import SimpleFormula

    f = SimpleFormula([_term(t) for t in c["terms"]], _ordering=c["ordering"])
    out = {"init": _terms_out(f), "trace": []}
    for op in c["ops"]:
        err = None
        try:
            o = op["o"]
            if o == "insert":
                f.insert(op["i"], _term(op["t"]))
            elif o == "set":
                f[op["i"]] = _term(op["t"])
            elif o == "del":
                del f[op["i"]]
            elif o == "delslice":
                del f[op["a"] : op["b"]]
            elif o == "append":
                f.append(_term(op["t"]))
            elif o == "extend":
                f.extend([_term(t) for t in op["ts"]])
            elif o == "pop":
                f.pop(op["i"])
            else:
                f.reverse()
        except Exception as e:
            err = type(e).__name__
        out["trace"].append({"terms": _terms_out(f), "err": err})
    out["final"] = _terms_out(f)
    return out


def impl(c):
    return {"st": impl_st, "lm": impl_lm, "sf": impl_sf}[c["k"]](c)


# ----------------------------------------------------------------------------- request / agree


def request(c, o):
    if c["k"] == "st":
        return dict(op="st", tree=c["tree"], objs=c["objs"], upd=c["upd"], sets=c["sets"])
    if c["k"] == "lm":
        return dict(op="lm", name=c["name"], layers=c["layers"], ops=c["ops"], probe=c["probe"])
    return dict(op="sf", ordering=c["ordering"], terms=c["terms"], ops=c["ops"])


def _cmp(o, m, fields):
    for f in fields:
        if o.get(f) != m.get(f):
            return f"field `{f}`: impl {str(o.get(f))[:160]} vs model {str(m.get(f))[:160]}"
    return None


def agree(c, o, m):
    if "driver_error" in m:
        return "driver: " + m["driver_error"][:300]
    if "harness_exception" in o:
        return "harness: " + o["harness_exception"]
    if "error" in m and len(m) == 1:
        return "model error: " + str(m["error"])
    if c["k"] == "st":
        why = _cmp(
            o,
            m,
            ["map", "log", "flat", "flat_mapped", "paths", "simp", "simp_default_again", "simp_same_again",
             "simp_inplace_unwrap", "update", "merge", "sets"],
        )
        if why:
            return why
        if m.get("merge_more_fuel") != m.get("merge"):
            return "model: merge depends on the fuel"
        want = [m["simp_inplace"][0], m["simp_inplace"][1]]
        got = [x.get("res", x) for x in o["simp_inplace"]]
        if got != want:
            return f"field `simp_inplace`: impl {str(got)[:160]} vs model {str(want)[:160]}"
        return None
    if c["k"] == "lm":
        why = _cmp(o, m, ["init", "trace", "probe"])
        if why:
            return why
        if m.get("final_is_run") is not True:
            return "model: fold of `step` and `run` differ"
        return None
    why = _cmp(o, m, ["init", "trace", "final"])
    return why


# ----------------------------------------------------------------------------- oracle (no model)


def _plain(v, f=None, ctx=()):
    """order-insensitive dictionary view of an encoded value; leaves optionally mapped with f(leaf, ctx)"""
    if "l" in v:
        return ("leaf", v["l"] if f is None else f(v["l"], ctx))
    if "t" in v:
        return ("tup", tuple(_plain(x, f, ctx + (i,)) for i, x in enumerate(v["t"])))
    return ("node", frozenset((k, _plain(x, f, ctx + (k,))) for k, x in v["n"]))


def _shape(v):
    return _plain(v, lambda x, c: None)


def _flat(v):
    if "l" in v:
        return [v["l"]]
    if "t" in v:
        return [y for x in v["t"] for y in _flat(x)]
    return [y for _, x in v["n"] for y in _flat(x)]


def _root_last(v):
    if "l" in v:
        return True
    if "t" in v:
        return all(_root_last(x) for x in v["t"])
    ks = [k for k, _ in v["n"]]
    return ("root" not in ks or ks[-1] == "root") and all(_root_last(x) for _, x in v["n"])


class _Mis(Exception):
    pass


def _ref_merge(objs, top):
    """independent restatement of `_merge` as a key-wise dictionary merge on encoded values;
    returns a `_plain` value; raises _Mis(kind) where the code must raise"""
    if not objs:
        return ("node", frozenset())
    tups = ["t" in o for o in objs]
    if any(tups) and not all(tups):
        raise _Mis("ValueError")
    if all(tups):
        cat = ("tup", tuple(_plain(x) for o in objs for x in o["t"]))
        return ("node", frozenset([("root", cat)])) if top else cat
    if all("l" in o for o in objs):
        xs = [o["l"] for o in objs]
        if "bad" in xs:
            raise _Mis("NotImplementedError")
        return ("leaf", "(" + "+".join(xs) + ")")
    dicts = [dict((k, x) for k, x in o["n"]) if "n" in o else {"root": o} for o in objs]
    keys = list(dict.fromkeys(k for d in dicts for k in d))
    errs, out = [], []
    for k in keys:
        vals = [d[k] for d in dicts if k in d]
        if len(vals) == 1:
            out.append((k, _plain(vals[0])))
        else:
            try:
                out.append((k, _ref_merge(vals, False)))
            except _Mis as e:
                errs.append(e.args[0])
    if errs:
        raise _Mis(*errs)
    return ("node", frozenset(out))


def oracle_st(c, o):
    tree = c["tree"]
    # --- map: shape, visit order, values
    if [x for x, _ in o["log"]] != o["flat"]:
        return f"_map visited leaves {[x for x, _ in o['log']]} but _flatten yields {o['flat']} (each leaf exactly once, in flatten order)"
    if o["flat"] != _flat(tree):
        return f"_flatten yields {o['flat']}, the leaves of the structure in order are {_flat(tree)}"
    if _shape(o["map"]) != _shape(tree):
        return "_map changed the shape of the structure"
    if _plain(o["map"]) != _plain(tree, _mapfn):
        return "_map result is not the structure with every leaf replaced by func(leaf, context)"
    want = [_mapfn(x, tuple(p)) for x, p in o["log"]]
    if Counter(map(str, o["flat_mapped"])) != Counter(want):
        return f"leaves of the mapped structure {o['flat_mapped']} are not the images of the leaves {want}"
    if _root_last(tree) and o["flat_mapped"] != want:
        return f"flatten(map f s) = {o['flat_mapped']} differs from map f (flatten s) = {want}"
    for (x, p), got in zip(o["log"], o["paths"]):
        if got != {"l": x}:
            return f"context {p} handed to func for leaf {x} does not address that leaf (lookup gives {got})"
    if not (o["unchanged_after_map"] and o["unchanged_after_simplify"] and o["unchanged_after_update"]):
        return "a non-inplace operation mutated the structure"
    # --- simplify
    for (r, u), res, again in zip([(1, 1), (1, 0), (0, 1), (0, 0)], o["simp"], o["simp_same_again"]):
        if "error" in res:
            return f"_simplify(recurse={bool(r)}, unwrap={bool(u)}) raised {res['error']}"
        if _flat(res) != _flat(tree):
            return f"_simplify(recurse={bool(r)}, unwrap={bool(u)}) changed the leaves: {_flat(res)} vs {_flat(tree)}"
        if again is not None and again != res:
            return f"_simplify(recurse={bool(r)}, unwrap={bool(u)}) is not idempotent: {res} then {again}"
    if o["simp_default_again"][0] is not None and o["simp_default_again"][0] != o["simp"][0]:
        return "_simplify() is not idempotent"
    for x in o["simp_inplace"]:
        if "error" in x:
            return f"_simplify(inplace=True, unwrap=False) raised {x['error']}"
        if not x["is_self"] or x["res"] != x["self"] or _flat(x["res"]) != _flat(tree):
            return "_simplify(inplace=True) did not simplify the object itself leaf-preservingly"
    # --- update
    kwkeys = [k for k, _ in c["upd"]["kw"]]
    if not any(k.startswith("_") for k in kwkeys):
        if "error" in o["update"]:
            return f"_update raised {o['update']['error']}"
        d = dict((k, _plain(x)) for k, x in tree["n"])
        d.update((k, _plain(x)) for k, x in c["upd"]["kw"])
        if c["upd"]["root"] is not None:
            d["root"] = _plain(c["upd"]["root"])
        if _plain(o["update"]) != ("node", frozenset(d.items())):
            return "_update is not the dictionary merge {**structure, **updates}"
    # --- merge
    if not o["merge_inputs_unchanged"]:
        return "_merge mutated its arguments"
    try:
        want = _ref_merge(c["objs"], True)
        if "error" in o["merge"]:
            return f"_merge raised {o['merge']['error']} on mergeable structures"
        if _plain(o["merge"]) != want:
            return "_merge is not the key-wise dictionary merge of the structures"
    except _Mis as e:
        if "error" not in o["merge"]:
            return f"_merge returned a value although a sub-merge must fail ({e.args})"
        if o["merge"]["error"] not in e.args:
            return f"_merge raised {o['merge']['error']}, expected one of {e.args}"
    return None


def _ref_layer(l):
    """the plain dict a supplied layer stands for (iteration order = dict order)"""
    if "d" in l:
        return dict((k, v) for k, v in l["d"])
    return _ref_stack(dict((k, v) for k, v in l["m"]), [y for y in l["layers"] if y is not None])


def _overlay(top, below):
    """dict whose lookups prefer `top`, iteration order: keys of top first, then new keys of below"""
    out = dict(top)
    for k, v in below.items():
        if k not in out:
            out[k] = v
    return out


def _ref_stack(muts, layers):
    d = dict(muts)
    for l in layers:
        d = _overlay(d, _ref_layer(l))
    return d


def oracle_lm(c, o):
    if not o["supplied_unchanged"]:
        return "a supplied layer was mutated"
    muts, layers = {}, [l for l in c["layers"] if l is not None]
    steps = [(None, o["init"])] + list(zip(c["ops"], o["trace"]))
    for op, obs in steps:
        if "broken" in obs:
            return f"iteration/len/lookup raised {obs['broken']}"
        if op is not None:
            if op["o"] == "set":
                muts[op["k"]] = op["v"]
                if obs["err"]:
                    return f"__setitem__ raised {obs['err']}"
            elif op["o"] == "del":
                if op["k"] in muts:
                    del muts[op["k"]]
                    if obs["err"]:
                        return f"__delitem__ of a key of the private layer raised {obs['err']}"
                elif obs["err"] != "KeyError":
                    return "__delitem__ of a key that is not in the private layer must raise KeyError"
            else:
                new = [l for l in op["layers"] if l is not None]
                if obs["err"]:
                    return f"with_layers raised {obs['err']}"
                if new:
                    if op["inplace"]:
                        layers = new + layers if op["prepend"] else layers + new
                    else:
                        me = {"name": None, "m": [[k, v] for k, v in muts.items()], "layers": layers}
                        layers = new + [me] if op["prepend"] else [me] + new
                        muts = {}
        want = _ref_stack(muts, layers)
        keys = [k for k, _ in obs["view"]]
        if len(set(keys)) != len(keys):
            return f"iteration yields duplicate keys {keys}"
        if obs["len"] != len(keys):
            return f"len() = {obs['len']} but iteration yields {len(keys)} keys"
        if any(v == "<KeyError>" for _, v in obs["view"]):
            return "a key produced by iteration cannot be looked up"
        if dict((k, v) for k, v in obs["view"]) != want:
            return f"mapping {obs['view']} is not the top-first merge {want} of its layers"
        if keys != list(want):
            return f"iteration order {keys} is not top-first first-occurrence order {list(want)}"
    for p in o["probe"]:
        k = p["k"]
        if p["in"] != (k in want):
            return f"`{k} in m` is {p['in']}"
        if (p["get"] == "<KeyError>") != (k not in want) or (k in want and p["get"] != want[k]):
            return f"m[{k}] = {p['get']}, top-first merge has {want.get(k, '<absent>')}"
        if k in want and p["named"][0] != want[k]:
            return f"get_with_layer_name({k}) returns value {p['named'][0]}, lookup gives {want[k]}"
        if k not in want and p["named"] != [None, None]:
            return f"get_with_layer_name({k}) of a missing key returns {p['named']}"
    if not o["items_consistent"]:
        return "keys()/items() disagree with iteration and lookup"
    return None


def _deg(t):
    return sum(1 for f in t if f["m"] != "literal")


def _apply_raw(raw, op):
    """the plain Python-list meaning of the operation (no re-sorting); returns error class or None"""
    o = op["o"]
    bad = lambda t: t is None
    try:
        if o == "insert":
            if bad(op["t"]):
                return "FormulaInvalidError"
            raw.insert(op["i"], op["t"])
        elif o == "set":
            if bad(op["t"]):
                return "FormulaInvalidError"
            raw[op["i"]] = op["t"]
        elif o == "del":
            del raw[op["i"]]
        elif o == "delslice":
            del raw[op["a"] : op["b"]]
        elif o == "append":
            if bad(op["t"]):
                return "FormulaInvalidError"
            raw.append(op["t"])
        elif o == "pop":
            raw.pop(op["i"])
    except IndexError:
        return "IndexError"
    return None


def _sort_key(t):
    return (_deg(t), sorted(f["x"] for f in t))


def _norm_term(t):
    return sorted(t, key=lambda f: f["x"])


def oracle_sf(c, o):
    mode = c["ordering"]
    deg = mode == "degree"

    def sorted_ok(ts):
        if mode == "sort":
            ks = [_sort_key(t) for t in ts]
            return all(a <= b for a, b in zip(ks, ks[1:])) and all(t == _norm_term(t) for t in ts)
        ds = [_deg(t) for t in ts]
        return all(a <= b for a, b in zip(ds, ds[1:]))

    def stable(new, raw):
        if mode == "sort":  # same terms (with sorted factors); ties are identical terms
            return sorted(map(str, new)) == sorted(str(_norm_term(t)) for t in raw)
        return all([t for t in new if _deg(t) == d] == [t for t in raw if _deg(t) == d] for d in range(0, 8))

    ordered = mode != "none"
    prev = o["init"]
    if ordered and not sorted_ok(prev):
        return f"constructor left the terms unsorted: {prev}"
    if not stable(prev, c["terms"]) or (not ordered and prev != c["terms"]):
        return "constructor did not keep the given terms (in the given order among ties)"
    for op, st in zip(c["ops"], o["trace"]):
        new = st["terms"]
        if ordered and not sorted_ok(new):
            return f"after {op['o']} the terms are {[_sort_key(t) for t in new]} (ordering invariant broken)"
        if op["o"] in ("insert", "set", "del", "delslice", "append", "pop"):
            raw = list(prev)
            err = _apply_raw(raw, op)
            if err != st["err"]:
                return f"{op} raised {st['err']}, a list raises {err}"
            if err is not None:
                if new != prev:
                    return f"failed {op['o']} changed the formula"
            elif ordered and op["o"] in ("insert", "set", "append"):
                if not stable(new, raw):
                    return f"{op['o']} did not keep the terms / insertion order among ties: {new} from {raw}"
            elif new != raw:
                return f"{op['o']} gives {new}, the sequence operation gives {raw}"
        elif op["o"] == "extend":
            k = next((i for i, t in enumerate(op["ts"]) if t is None), len(op["ts"]))
            raw = list(prev) + op["ts"][:k]
            if (st["err"] is None) != (k == len(op["ts"])):
                return f"extend raised {st['err']}"
            if (ordered and not stable(new, raw)) or (not ordered and new != raw):
                return f"extend did not append in order: {new} from {raw}"
        else:  # reverse: a composition of item assignments; only the ordering invariant is demanded
            if not ordered and new != list(reversed(prev)):
                return "reverse() did not reverse an unordered formula"
        prev = new
    if o["final"] != prev:
        return "final state differs from the last observed state"
    return None


def oracle(c, o):
    if "harness_exception" in o:
        return "harness could not run the implementation: " + o["harness_exception"]
    return {"st": oracle_st, "lm": oracle_lm, "sf": oracle_sf}[c["k"]](c, o)


def classify(c, o, why):
    return None


LEVEL_TEXT = (
    "Proof: Lean theorems (Props/C19.lean) about executable models of Structured, LayeredMapping and SimpleFormula, "
    "for ALL trees, ALL layer stacks and ALL operation sequences: _map calls func exactly on the _flatten list (with "
    "truthful contexts) and returns the same dictionary shape; _simplify is idempotent and preserves the flatten list; "
    "_update/_merge are key-wise dictionary merges (tuples concatenate); a LayeredMapping looks up, iterates and counts "
    "as the top-first concatenation of its layers, writes touch only the private layer; a formula satisfies the invariant "
    "of its ordering method (NONE/DEGREE/SORT) after every operation sequence, and the DEGREE sort is stable. The models are tied to the code by a differential "
    "correspondence on every run."
)
LEVEL_NOTE = (
    "Trusted: Lean kernel + propext/Classical.choice/Quot.sound; the hand models validated by correspondence on "
    "generated nestings/stacks/operation sequences; CPython dict/list/sorted semantics and the collections.abc mixins are "
    "modelled, not verified; subclasses of Structured, _metadata, named_layers caching, aliasing of layers "
    "are not modelled."
)
