"""C19 — Structured, layered-mapping and formula containers obey their container laws.

Correspondence stream `c19` (six request kinds, dispatched on "op"):
  st   random nestings (depth <= 4) of keyed/tuple structure built through the public API of the REAL
       `Structured` (constructor, or item assignment when the root key is not last), then
       `_map` (logging two-argument function; one-argument function through the TypeError fallback;
       `recurse=False`), `_flatten`, tuple-path `__getitem__`, `_simplify` (all flag combinations, twice),
       `_update`, `_merge` (custom merger), `__setitem__`;
  so   the CONTAINER PROTOCOL of `Structured` on trees whose leaves are str | int | list | set | dict: a random
       history (<= 12) of `s[key]` / `s[key] = v` (plain keys None/str/int, valid and invalid identifiers, tuple
       paths with negative / out-of-range indices, beyond the structure, into leaves), `getattr`/`setattr`,
       `iter`, `len`, `in`, `==`, `_to_dict(recurse=…)`, the state observed after every step; and `_merge` with the
       DEFAULT merger (lists / sets / dicts / mixtures);
  stf  the `StructuredFormula` constructor (and `Formula(**structure)`) on trees of one-term formulas whose nested
       nodes are plain `Structured` or `StructuredFormula`;
  lm   random stacks of plain-dict / nested named `LayeredMapping` layers with overlapping keys and a random sequence
       (<= 20) of `__setitem__`, `__delitem__`, `pop`, `popitem`, `clear`, `setdefault`, `update`, `with_layers` on the
       REAL object, interleaved with writes made by the OWNERS of the supplied layers (live view), observing `dict` view / `len` / iteration after every step and `named_layers` (a cached property)
       at random steps; `in`/`[]`/`get_with_layer_name`/`get_layer_name_for_key`/`getattr(m, name)` at the end;
  os   `OrderedSet` over a small alphabet (duplicates in the input) and a sequence (<= 8) of `|`, `&`, `-`, `^` (also
       reflected, against sets and plain lists), `<=`/`<`/`>=`/`>`/`==`, `isdisjoint`, `in`, the running set observed
       after every step;
  sf   random term lists and a random sequence (<= 20) of `insert`, `__setitem__` (index, slice), `__delitem__` (index,
       slice, extended slice), `append`, `extend`, `+=`, `pop`, `remove`, `clear`, `reverse`, `f[a:b:c]`, `index`,
       `count`, `in`, `reversed`, `==` on the REAL `SimpleFormula` (orderings degree/none/sort), plus constructor calls
       (missing / string / non-Term / `**structure` arguments).
The same inputs go to the Lean models (`Model.St`, `Model.StOps`, `Model.StF`, `Model.OSet`, `Model.LMap`,
`Model.LMapX`, `Model.SFm`); outputs must be equal.

The oracle re-states the container laws in Python directly on the implementation's observables
(independent reference computations on plain dicts/lists; it never looks at the model).
"""
from __future__ import annotations

import copy
import itertools
from collections import Counter

PROPERTY = "C19"
ENGINE = "c19"
REQUIRED_THEOREMS = [
    "map_log_is_flatten",
    "map_shape",
    "map_is_dict_map",
    "flatten_map",
    "flatten_map_perm",
    "map_paths_truthful",
    "map_nonrecursive_is_dict_map",
    "simplify_idempotent",
    "simplify_flatten",
    "simplify_default_is_simpObj",
    "update_is_dict_merge",
    "merge_is_keywise",
    "merge_tuples_concatenate",
    "merge_fuel_sufficient",
    "merge_default_leaves",
    "merge_default_concatenates",
    "getitem_root_delegation",
    "path_lookup_walks",
    "setitem_then_getitem",
    "setitem_other_paths_unchanged",
    "setitem_fails_iff",
    "setitem_is_dict_write",
    "iter_len_consistent",
    "root_only_is_its_root",
    "contains_iff_key",
    "eq_is_dict_equality",
    "eq_unfolds",
    "to_dict_roundtrip",
    "container_history_invariant",
    "structured_formula_ctor_leaf_preserving",
    "lm_lookup_topfirst",
    "lm_writes_private",
    "lm_set_get",
    "lm_len_iter_consistent",
    "lm_named_lookup_consistent",
    "lm_with_layers_stack",
    "lm_named_layers_first_wins",
    "lm_all_writes_private",
    "lm_pop_private_only",
    "lm_clear_private",
    "lm_live_view",
    "formula_sorted_invariant",
    "formula_degree_sorted",
    "formula_reorder_stable",
    "formula_insert_stable",
    "formula_delete_exact",
    "formula_slices",
    "formula_slice_delete_agrees",
    "formula_clear_remove",
    "formula_constructor",
    "oset_constructor",
    "oset_algebra",
    "oset_comparisons",
    "oset_history_nodup",
    "live_container_tables",
]
TRUSTED = [
    "modelled, not verified: CPython dict insertion order and dict equality, `**kwargs` binding of the `root` keyword, "
    "tuple/generator evaluation order, `sorted` stability, list/tuple/str index and slice conventions "
    "(`slice.indices`), `str.isidentifier` (ASCII), the `TypeError` a wrong-arity call raises, `collections.abc` mixins "
    "(MutableMapping.__contains__/pop/popitem/clear/update/setdefault, MutableSequence.append/extend/pop/remove/clear/"
    "reverse/__iadd__, Sequence.index/count/__contains__/__reversed__), `functools.cached_property`",
    "leaf objects of the `so` stream (str, int, list, set, dict) are a five-constructor model of their `[]`, `iter`, `==`; "
    "set iteration order is not modelled (compared sorted)",
    "Gen/Containers.lean (ordering method names and default, `Structured.__slots__`, which protocol methods each class "
    "defines itself) is regenerated from the live package on every run",
    "not modelled: `_metadata` (carried along, never read), `Structured.__dir__/__repr__/__str__`, assigning "
    "`_structure` through `__setattr__`, aliasing of `Structured` (the same object stored at two places), structural "
    "changes made to a NESTED `LayeredMapping` behind the outer one's back (`with_layers(inplace=True)`, renaming: the "
    "outer `named_layers` cache would be stale; key writes by a layer's owner ARE modelled), `StructuredFormula` items that need "
    "parsing (`_prepare_item` on non-Formula specs: C01), the deprecated `SimpleFormula._map/_flatten/…` shims, "
    "`Term.__lt__` against non-Term operands",
]
ASSUMPTIONS = [
    "every Structured has unique keys that do not start with '_' (it stores a dict; the constructor and `__setitem__` "
    "reject '_' keys; proved preserved by every container operation: container_history_invariant)",
    "keys are ASCII strings (`isidentifier` is modelled for ASCII)",
    "leaves are neither tuples nor Structured instances; the leaves of `_map`/`_flatten`/`_simplify` cases are strings",
    "terms have distinct factor expressions (what `Term.__init__` produces)",
]
RULE = (
    "st: random trees over keys {root,a,b,c,d}, depth<=4, tuples of length 0..3 (also tuple-in-tuple), root key "
    "last (constructor) or elsewhere (item assignment); merge partners derived from the tree by key drops/additions, "
    "leaf->wrapped leaf upcasts and occasional tuple/leaf misalignment; so: trees over {root,a..e} with leaves "
    "str|int|list|set|dict, 2..12 ops, keys None|str (identifiers, '', 'a b', '1a', '_p', 'a-b')|int|tuple paths taken "
    "from the tree and perturbed (extended, replaced element, negative/out-of-range index), `==` partners = key "
    "shuffles / variations / unrelated values, merge objects of one leaf kind or mixed; stf: trees of one-term "
    "formulas, nested nodes plain Structured or StructuredFormula, occasional '_' key; lm: 0..4 layers (dict | nested "
    "named LayeredMapping, depth<=3) over keys k0..k5 with values int|None, ops set/del/pop/popitem/clear/setdefault/"
    "update/with_layers(prepend,inplace,name)/owner writes to a supplied layer at a random depth, named_layers read after 40% of the steps; sf: terms of degree 0..3 "
    "over a..f, orderings degree|none|sort, ops with in/out-of-range and negative indices, None/negative slice bounds, "
    "steps 1,2,3,-1,-2,0, non-Term values, terms known to be present (factors permuted), 0..2 constructor probes; "
    "os: 0..8 letters of a..g with repetitions, 1..8 operations against OrderedSets or lists. "
    "non-trivial = st/stf with a nested node or tuple / so with >=2 ops / lm with >=2 layers or any op / sf with >=1 "
    "op / os with >=2 input values; distinct by canonical JSON"
)

# ----------------------------------------------------------------------------- generators

KEYS = ["root", "a", "b", "c", "d"]


class _Fresh:
    def __init__(self):
        self.n = 0

    def leaf(self, rng):
        self.n += 1
        if rng.random() < 0.03:
            return {"l": "bad"}
        return {"l": f"x{self.n}"}


def gen_val(rng, depth, fresh, top=False):
    r = rng.random()
    if depth <= 0 or (not top and r < 0.4):
        return fresh.leaf(rng)
    if not top and r < 0.62:
        n = rng.choice([0, 1, 1, 2, 2, 3])
        return {"t": [gen_val(rng, depth - 1, fresh) for _ in range(n)]}
    return gen_node(rng, depth, fresh)


def gen_node(rng, depth, fresh):
    shape = rng.random()
    if shape < 0.25:
        keys = ["root"]  # exercises the unwrapping loop of _simplify
    else:
        keys = [k for k in KEYS if rng.random() < 0.45]
    rng.shuffle(keys)
    if "root" in keys and rng.random() < 0.7:
        keys.remove("root")
        keys.append("root")  # what the constructor produces
    return {"n": [[k, gen_val(rng, depth - 1, fresh)] for k in keys]}


def vary(rng, v, fresh, depth):
    """a merge partner for v: mostly aligned with it"""
    r = rng.random()
    if "l" in v:
        if r < 0.8 or depth <= 0:
            return fresh.leaf(rng)
        if r < 0.93:
            return {"n": [["root", fresh.leaf(rng)], ["e", fresh.leaf(rng)]][: rng.choice([1, 2])]}
        return {"t": [fresh.leaf(rng)]}
    if "t" in v:
        if r < 0.9:
            return {"t": [gen_val(rng, 1, fresh) for _ in range(rng.choice([0, 1, 2]))]}
        return fresh.leaf(rng)
    items = []
    for k, c in v["n"]:
        if rng.random() < 0.7:
            items.append([k, vary(rng, c, fresh, depth - 1)])
    for k in ["e", "a", "root"]:
        if rng.random() < 0.2 and all(k != kk for kk, _ in items):
            items.append([k, gen_val(rng, 1, fresh)])
    if r < 0.06:
        return fresh.leaf(rng)
    rng.shuffle(items)
    return {"n": items}


def gen_st(rng):
    fresh = _Fresh()
    depth = rng.choice([1, 2, 2, 3, 3, 4, 4])
    tree = gen_node(rng, depth, fresh)
    objs = [tree] + [vary(rng, tree, fresh, depth) for _ in range(rng.choice([0, 1, 1, 2]))]
    if rng.random() < 0.12:
        objs = [gen_val(rng, 2, fresh) for _ in range(rng.choice([0, 1, 2, 3]))]
    if rng.random() < 0.08:
        objs = [{"t": [fresh.leaf(rng) for _ in range(rng.choice([0, 1, 2]))]} for _ in range(rng.choice([1, 2, 3]))]
    kw = [[k, gen_val(rng, 2, fresh)] for k in ["a", "b", "e", "f"] if rng.random() < 0.35]
    if rng.random() < 0.05:
        kw.append(["_bad", fresh.leaf(rng)])
    rng.shuffle(kw)
    upd = {"root": gen_val(rng, 2, fresh) if rng.random() < 0.4 else None, "kw": kw}
    sets = [[rng.choice(["root", "a", "b", "e", "_p"]), gen_val(rng, 1, fresh)] for _ in range(rng.choice([0, 1, 2, 3]))]
    return {"k": "st", "tree": tree, "objs": objs, "upd": upd, "sets": sets}



# ----------------------------------------------------------------------------- generators: container protocol (`so`)

SO_KEYS = ["root", "a", "b", "c", "d", "e"]
SO_BADKEYS = ["", "a b", "1a", "_p", "a-b", "_"]


class _FreshPy:
    """leaf objects of the `so` stream: str | int | list[int] | set[int] | dict[str,int]"""

    def __init__(self, kinds):
        self.n = 0
        self.kinds = kinds

    def leaf(self, rng):
        self.n += 1
        k = rng.choice(self.kinds)
        if k == "s":
            return {"l": {"s": "x%d" % self.n if rng.random() < 0.8 else rng.choice(["", "q", "abc"])}}
        if k == "i":
            return {"l": {"i": rng.choice([-1, 0, self.n, 7])}}
        if k == "L":
            return {"l": {"L": [rng.randrange(5) for _ in range(rng.choice([0, 1, 2, 3]))]}}
        if k == "S":
            return {"l": {"S": sorted(set(rng.randrange(6) for _ in range(rng.choice([0, 1, 2, 3]))))}}
        ks = [x for x in ["p", "q", "r"] if rng.random() < 0.5]
        rng.shuffle(ks)
        return {"l": {"D": [[x, rng.randrange(9)] for x in ks]}}


def _paths(v, pre=()):
    """all (path, value) pairs of an encoded value, tuple positions as ints"""
    out = [(pre, v)]
    if "t" in v:
        for i, x in enumerate(v["t"]):
            out += _paths(x, pre + (i,))
    elif "n" in v:
        for k, x in v["n"]:
            out += _paths(x, pre + (k,))
    return out


def _gen_key(rng, tree, for_set):
    r = rng.random()
    if r < 0.45:  # a tuple path
        ps = _paths(tree)
        p, at = rng.choice(ps)
        p = list(p)
        q = rng.random()
        if for_set:
            # assignment wants a prefix that leads to a Structured plus a new/old key
            if "n" not in at or q < 0.15:
                pass  # leads to a non-Structured (KeyError) or replaces an existing place
            else:
                p.append(rng.choice(SO_KEYS + SO_BADKEYS[:4] + [None, 0]))
        elif q < 0.25:
            p.append(rng.choice(["a", "zz", 0, 1, -1, 5, None, "_p"]))
        elif q < 0.35 and p:
            j = rng.randrange(len(p))
            p[j] = rng.choice(["a", "zz", 0, -1, -2, 3, None])
        if p and isinstance(p[-1], int) and rng.random() < 0.3:
            p[-1] = p[-1] - rng.choice([1, 2, 3])  # negative / out of range index
        return {"p": p}
    if r < 0.8:
        return rng.choice(SO_KEYS)
    if r < 0.9:
        return rng.choice(SO_BADKEYS + ["zz"])
    return rng.choice([None, None, 0, 1, -1, 2, 5])


def gen_so(rng):
    kinds = rng.choice([["s"], ["s", "i"], ["s", "i", "L", "S", "D"], ["L"], ["i", "L"]])
    fresh = _FreshPy(kinds)
    depth = rng.choice([1, 2, 2, 3, 3])
    tree = gen_node(rng, depth, fresh)
    ops = []
    for _ in range(rng.choice([2, 4, 8, 12])):
        r = rng.random()
        if r < 0.25:
            ops.append({"o": "get", "key": _gen_key(rng, tree, False)})
        elif r < 0.5:
            ops.append({"o": "set", "key": _gen_key(rng, tree, True), "v": gen_val(rng, rng.choice([0, 1, 2]), fresh)})
        elif r < 0.57:
            ops.append({"o": "getattr", "a": rng.choice(SO_KEYS + ["zz", "_zz", "a b"])})
        elif r < 0.65:
            ops.append({"o": "setattr", "a": rng.choice(SO_KEYS + ["a b", "_zz", "_metadata", "1a"]),
                        "v": gen_val(rng, rng.choice([0, 1]), fresh)})
        elif r < 0.75:
            ops.append({"o": "iter"})
        elif r < 0.8:
            ops.append({"o": "len"})
        elif r < 0.86:
            ops.append({"o": "contains", "key": rng.choice(SO_KEYS + ["zz", "_p", None, 0])})
        elif r < 0.94:
            q = rng.random()
            if q < 0.4:
                other = _shuffled(rng, tree)
            elif q < 0.7:
                other = vary(rng, tree, fresh, depth)
            else:
                other = gen_val(rng, 2, fresh)
            ops.append({"o": "eq", "other": other})
        else:
            ops.append({"o": "todict", "recurse": rng.random() < 0.6})
    # objects for `_merge` with the DEFAULT merger: leaves of one mergeable kind, sometimes mixed
    mk = rng.choice([["L"], ["L"], ["S"], ["D"], ["L", "S"], ["L", "D", "i"], ["s"]])
    mf = _FreshPy(mk)
    mt = gen_node(rng, rng.choice([1, 2, 3]), mf)
    objs = [mt] + [vary(rng, mt, mf, 3) for _ in range(rng.choice([0, 1, 1, 2]))]
    if rng.random() < 0.15:
        objs = [gen_val(rng, 1, mf) for _ in range(rng.choice([0, 1, 2, 3]))]
    return {"k": "so", "tree": tree, "ops": ops, "merge": objs}


def _shuffled(rng, v):
    if "l" in v:
        return v
    if "t" in v:
        return {"t": [_shuffled(rng, x) for x in v["t"]]}
    items = [[k, _shuffled(rng, x)] for k, x in v["n"]]
    rng.shuffle(items)
    return {"n": items}


# ----------------------------------------------------------------------------- generators: StructuredFormula constructor (`stf`)


class _FreshLabel:
    def __init__(self):
        self.n = 0

    def leaf(self, rng):
        self.n += 1
        return {"l": "v%d" % self.n}


def _count_nodes(v):
    if "l" in v:
        return 0
    if "t" in v:
        return sum(_count_nodes(x) for x in v["t"])
    return 1 + sum(_count_nodes(x) for _, x in v["n"])


def gen_stf(rng):
    fresh = _FreshLabel()
    tree = gen_node(rng, rng.choice([1, 2, 2, 3, 3, 4]), fresh)
    if rng.random() < 0.04:
        tree["n"].append(["_bad", fresh.leaf(rng)])
    # which nested nodes are built as StructuredFormula (True) / plain Structured (False), in DFS order
    return {"k": "stf", "tree": tree, "bits": [rng.random() < 0.4 for _ in range(_count_nodes(tree))]}


# ----------------------------------------------------------------------------- generators: OrderedSet (`os`)

OS_ALPHA = ["a", "b", "c", "d", "e", "f", "g"]


def _os_items(rng):
    return [rng.choice(OS_ALPHA) for _ in range(rng.choice([0, 1, 2, 3, 5, 8]))]


def gen_os(rng):
    ops = []
    for _ in range(rng.choice([1, 2, 4, 8])):
        o = rng.choice(["or", "and", "sub", "rsub", "xor", "or", "and", "le", "lt", "ge", "gt", "eq", "isdisjoint", "contains"])
        op = {"o": o, "xs": _os_items(rng), "isset": rng.random() < 0.55}
        if o in ("or", "and", "xor") and not op["isset"]:
            op["refl"] = rng.random() < 0.5  # `lst | a` instead of `a | lst`
        if o == "contains":
            op = {"o": o, "x": rng.choice(OS_ALPHA)}
        if o == "eq" and rng.random() < 0.5:
            op["same"] = True  # filled in by impl/request from the running state? no: a permutation of the initial items
        ops.append(op)
    xs = _os_items(rng)
    for op in ops:
        if op.pop("same", False):
            op["xs"] = list(reversed(xs))
            op["isset"] = True
    return {"k": "os", "xs": xs, "ops": ops}


LKEYS = ["k0", "k1", "k2", "k3", "k4", "k5"]
NAMES = [None, None, "", "data", "ctx", "x"]


def gen_dict(rng):
    ks = [k for k in LKEYS if rng.random() < 0.4]
    rng.shuffle(ks)
    return {"d": [[k, rng.choice([None, 0, 1, 2, 3, 4, 5, 6, 7])] for k in ks]}


def gen_layer(rng, depth):
    if depth <= 0 or rng.random() < 0.6:
        return gen_dict(rng)
    return {
        "name": rng.choice(NAMES),
        "m": gen_dict(rng)["d"][:2],
        "layers": [gen_layer(rng, depth - 1) for _ in range(rng.choice([0, 1, 2, 3]))],
    }


def _shape_of(l):
    """shape of a supplied layer: None for a plain dict, else the list of the shapes of its layers"""
    if "d" in l:
        return None
    return [_shape_of(x) for x in l["layers"] if x is not None]


def _random_path(rng, shape):
    """index path into nested `_layers` lists, ending at a dict layer or (sometimes) at a nested mapping"""
    path, cur = [], shape
    while cur:
        i = rng.randrange(len(cur))
        path.append(i)
        cur = cur[i]
        if cur is not None and rng.random() < 0.3:
            break
    return path


def gen_lm(rng):
    layers = [gen_layer(rng, 3) if rng.random() > 0.08 else None for _ in range(rng.choice([0, 1, 2, 2, 3, 4]))]
    shape = [_shape_of(l) for l in layers if l is not None]  # shadow of the outermost object's `_layers`
    ops = []
    for _ in range(rng.choice([0, 2, 5, 10, 20])):
        r = rng.random()
        if r < 0.27:
            op = {"o": "set", "k": rng.choice(LKEYS), "v": rng.choice([None, 10, 11, 12, 13])}
        elif r < 0.44:
            op = {"o": "del", "k": rng.choice(LKEYS)}
        elif r < 0.53:
            op = {"o": "pop", "k": rng.choice(LKEYS + ["zz"]), "hasd": rng.random() < 0.4, "d": rng.choice([None, 99])}
        elif r < 0.58:
            op = {"o": "popitem"}
        elif r < 0.62:
            op = {"o": "clear"}
        elif r < 0.67:
            op = {"o": "setdefault", "k": rng.choice(LKEYS + ["zz"]), "d": rng.choice([None, 20, 21])}
        elif r < 0.72:
            ks = [k for k in LKEYS if rng.random() < 0.3]
            rng.shuffle(ks)
            op = {"o": "update", "pairs": [[k, rng.choice([None, 30, 31, 32])] for k in ks]}
        elif r < 0.82 and shape:
            # the OWNER of a supplied layer writes it: the mapping is a live view
            op = {"o": "ext", "path": _random_path(rng, shape), "k": rng.choice(LKEYS), "v": rng.choice([None, 40, 41, 42]),
                  "del": rng.random() < 0.35}
        else:
            op = {
                "o": "with",
                "layers": [gen_layer(rng, 2) if rng.random() > 0.15 else None for _ in range(rng.choice([0, 1, 1, 2]))],
                "prepend": rng.random() < 0.6,
                "inplace": rng.random() < 0.5,
                "name": rng.choice(NAMES),
            }
            new = [_shape_of(l) for l in op["layers"] if l is not None]
            if new:
                if op["inplace"]:
                    shape = new + shape if op["prepend"] else shape + new
                else:
                    shape = new + [shape] if op["prepend"] else [shape] + new
        op["named"] = rng.random() < 0.4  # read `named_layers` (a cached property) after this step
        ops.append(op)
    return {"k": "lm", "name": rng.choice(NAMES), "layers": layers, "ops": ops, "probe": LKEYS + ["zz"],
            "attrs": ["data", "ctx", "x", "", "zz"], "named0": rng.random() < 0.5}


VARS = ["a", "b", "c", "d", "e", "f"]


def gen_term(rng):
    deg = rng.choice([0, 1, 1, 1, 2, 2, 3])
    fs = [{"x": v, "m": "lookup"} for v in rng.sample(VARS, deg)]
    if deg == 0 or rng.random() < 0.15:
        fs.insert(rng.randrange(len(fs) + 1), {"x": rng.choice(["1", "2", "0.5"]), "m": "literal"})
    if rng.random() < 0.1 and fs:
        fs[rng.randrange(len(fs))]["m"] = "python"
    return fs


def gen_sf(rng):
    terms = [gen_term(rng) for _ in range(rng.choice([0, 1, 2, 3, 4, 6]))]
    ops = []

    def val():
        return gen_term(rng) if rng.random() > 0.07 else None

    def known():
        """a term that is probably in the formula (possibly with its factors permuted)"""
        pool = terms + [op["t"] for op in ops if op.get("t")]
        if not pool or rng.random() < 0.25:
            return val()
        t = list(rng.choice(pool))
        if rng.random() < 0.3:
            rng.shuffle(t)
        return t

    def bound():
        return rng.choice([None, None, -9, -3, -2, -1, 0, 1, 2, 3, 5, 9])

    ordering = rng.choice(["degree", "degree", "degree", "none", "sort"])
    if rng.random() < 0.3:
        # `==` right after construction against (a perturbation of) the expected initial state
        other = [list(t) for t in terms]
        if ordering != "none":
            other.sort(key=_deg if ordering == "degree" else _sort_key)
        if other and rng.random() < 0.6:
            j = rng.randrange(len(other))
            other[j] = gen_term(rng) if rng.random() < 0.7 else list(reversed(other[j]))
        ops.append({"o": "eq", "other": other})
    for _ in range(rng.choice([1, 3, 6, 12, 20])):
        r = rng.random()
        i = rng.choice([-9, -3, -2, -1, 0, 0, 1, 2, 3, 5, 9])
        if r < 0.2:
            ops.append({"o": "insert", "i": i, "t": val()})
        elif r < 0.34:
            ops.append({"o": "set", "i": i, "t": val()})
        elif r < 0.43:
            ops.append({"o": "del", "i": i})
        elif r < 0.47:
            ops.append({"o": "delslice", "a": i, "b": rng.choice([-2, 0, 1, 2, 4, 9])})
        elif r < 0.53:
            ops.append({"o": "append", "t": val()})
        elif r < 0.58:
            ops.append({"o": "extend", "ts": [val() for _ in range(rng.choice([0, 1, 2, 3]))]})
        elif r < 0.63:
            ops.append({"o": "pop", "i": rng.choice([-1, -1, 0, i])})
        elif r < 0.67:
            ops.append({"o": "reverse"})
        elif r < 0.71:
            ops.append({"o": "iadd", "ts": [val() for _ in range(rng.choice([0, 1, 2]))]})
        elif r < 0.75:
            op = {"o": "setslice", "a": bound(), "b": bound(), "c": rng.choice([1, 1, 1, 2, -1])}
            if rng.random() < 0.7:
                op["ts"] = [val() for _ in range(rng.choice([0, 1, 2]))]
            else:
                op["t"] = gen_term(rng)
            ops.append(op)
        elif r < 0.8:
            ops.append({"o": "delslicex", "a": bound(), "b": bound(), "c": rng.choice([1, 1, 2, 3, -1, -1, -2, 0])})
        elif r < 0.82:
            ops.append({"o": "clear"})
        elif r < 0.87:
            ops.append({"o": "remove", "t": known()})
        elif r < 0.91:
            ops.append({"o": "getslice", "a": bound(), "b": bound(), "c": rng.choice([1, 1, 2, -1, -1, -2, 0])})
        elif r < 0.94:
            ops.append({"o": rng.choice(["index", "count", "contains"]), "t": known()})
        elif r < 0.955:
            ops.append({"o": "reversed"})
        elif r < 0.965:
            ops.append({"o": "eqforeign", "x": rng.choice(["int", "str", "none", "tuple"])})
        else:
            q = rng.random()
            pool = terms + [op["t"] for op in ops if op.get("t")]
            other = [list(t) for t in pool] if q < 0.5 else [gen_term(rng) for _ in range(rng.choice([0, 1, 2]))]
            if q < 0.25:
                other.sort(key=_deg)
            ops.append({"o": "eq", "other": other})
    ctors = []
    for _ in range(rng.choice([0, 0, 1, 2])):
        arg = rng.choice(["terms", "terms", "terms", "missing", "notterms"])
        c = {"arg": arg, "kw": rng.random() < 0.2}
        if arg == "terms":
            c["ts"] = [val() if rng.random() < 0.9 else None for _ in range(rng.choice([0, 1, 2, 4]))]
            c["as"] = rng.choice(["list", "tuple", "generator"])
        elif arg == "notterms":
            c["what"] = rng.choice(["str", "int", "none"])
        ctors.append(c)
    return {"k": "sf", "ordering": ordering, "terms": terms, "ops": ops, "ctors": ctors}


_STREAMS = ["st", "so", "lm", "sf", "stf", "lm", "so", "sf", "st", "lm", "so", "sf", "os"]


def cases(rng, tier):
    n = {"quick": 780, "thorough": 10400, "search": 300}[tier]
    gens = {"st": gen_st, "so": gen_so, "stf": gen_stf, "os": gen_os, "lm": gen_lm, "sf": gen_sf}
    for i in range(n):
        yield gens[_STREAMS[i % len(_STREAMS)]](rng)


def describe(c):
    if c["k"] == "st":
        return f"st,depth={_depth(c['tree'])},objs={len(c['objs'])}"
    if c["k"] == "stf":
        return f"stf,depth={_depth(c['tree'])}"
    if c["k"] == "os":
        return f"os,ops={len(c['ops'])}"
    if c["k"] == "so":
        return f"so,depth={_depth(c['tree'])},ops={len(c['ops']) // 4 * 4}+"
    if c["k"] == "lm":
        return f"lm,layers={len(c['layers'])},ops={min(len(c['ops']), 20) // 5 * 5}+"
    return f"sf,{c['ordering']},ops={len(c['ops']) // 5 * 5}+"


def _depth(v):
    if "l" in v:
        return 0
    if "t" in v:
        return 1 + max([_depth(x) for x in v["t"]] + [0])
    return 1 + max([_depth(x) for _, x in v["n"]] + [0])


def nontrivial(c):
    if c["k"] == "st":
        return _depth(c["tree"]) >= 2
    if c["k"] == "stf":
        return _depth(c["tree"]) >= 2
    if c["k"] == "os":
        return len(c["xs"]) >= 2
    if c["k"] == "so":
        return len(c["ops"]) >= 2
    if c["k"] == "lm":
        return len(c["ops"]) > 0 or len([l for l in c["layers"] if l]) >= 2
    return len(c["ops"]) >= 1


# ----------------------------------------------------------------------------- impl: Structured


def _build(v):
    from formulaic.utils.structured import Structured

    if "l" in v:
        return v["l"]
    if "t" in v:
        return tuple(_build(x) for x in v["t"])
    pairs = [(k, _build(x)) for k, x in v["n"]]
    keys = [k for k, _ in pairs]
    if "root" not in keys:
        return Structured(**dict(pairs))
    if keys[-1] == "root":
        return Structured(pairs[-1][1], **dict(pairs[:-1]))
    s = Structured()
    for k, x in pairs:
        s[k] = x
    return s


def _enc(o):
    from formulaic.utils.structured import Structured

    if isinstance(o, Structured):
        return {"n": [[k, _enc(x)] for k, x in o._to_dict(recurse=False).items()]}
    if isinstance(o, tuple):
        return {"t": [_enc(x) for x in o]}
    return {"l": o}


def _flat_out(it):
    return [x if isinstance(x, str) else _enc(x) for x in it]


def _mapfn(x, ctx):
    return x + "@" + ".".join(map(str, ctx))


def _mapfn_nr(x, ctx):
    from formulaic.utils.structured import Structured

    d = "S[" + ",".join(x._structure) + "]" if isinstance(x, Structured) else x
    return d + "@" + ".".join(map(str, ctx))


def _merger(*xs):
    if "bad" in xs:
        raise NotImplementedError("bad leaf")
    return "(" + "+".join(xs) + ")"


def _try(fn):
    try:
        return _enc(fn())
    except Exception as e:
        return {"error": type(e).__name__}


def impl_st(c):
    from formulaic.utils.structured import Structured

    s = _build(c["tree"])
    if _enc(s) != c["tree"]:
        raise RuntimeError("harness could not build the requested tree")
    out = {}
    log = []

    def f(x, ctx):
        log.append([x, list(ctx)])
        return _mapfn(x, ctx)

    m = s._map(f)
    out["map"] = _enc(m)
    out["log"] = log
    out["flat"] = _flat_out(s._flatten())
    out["flat_mapped"] = _flat_out(m._flatten())
    out["paths"] = [_try(lambda p=p: s[tuple(p)]) for _, p in log]
    out["map1"] = _try(lambda: s._map(lambda x: x + "!"))  # one-argument func: reached through the TypeError fallback
    out["map_nr"] = _try(lambda: s._map(_mapfn_nr, recurse=False))
    out["unchanged_after_map"] = _enc(s) == c["tree"]
    combos = [(True, True), (True, False), (False, True), (False, False)]
    simp, again_default, again_same = [], [], []
    for r, u in combos:
        try:
            res = s._simplify(recurse=r, unwrap=u)
        except Exception as e:
            simp.append({"error": type(e).__name__})
            again_default.append(None)
            again_same.append(None)
            continue
        simp.append(_enc(res))
        if isinstance(res, Structured):
            again_default.append(_try(lambda: res._simplify()))
            again_same.append(_try(lambda: res._simplify(recurse=r, unwrap=u)))
        else:
            again_default.append(None)
            again_same.append(None)
    out["simp"] = simp
    out["simp_default_again"] = again_default
    out["simp_same_again"] = again_same
    out["unchanged_after_simplify"] = _enc(s) == c["tree"]
    inpl = []
    for r in (True, False):
        t = _build(c["tree"])
        try:
            res = t._simplify(recurse=r, unwrap=False, inplace=True)
            inpl.append({"res": _enc(res), "self": _enc(t), "is_self": res is t})
        except Exception as e:
            inpl.append({"error": type(e).__name__})
    out["simp_inplace"] = inpl
    out["simp_inplace_unwrap"] = _try(lambda: _build(c["tree"])._simplify(inplace=True))
    kw = {k: _build(v) for k, v in c["upd"]["kw"]}
    if c["upd"]["root"] is None:
        out["update"] = _try(lambda: s._update(**kw))
    else:
        out["update"] = _try(lambda: s._update(_build(c["upd"]["root"]), **kw))
    out["unchanged_after_update"] = _enc(s) == c["tree"]
    objs = [_build(o) for o in c["objs"]]
    out["merge"] = _try(lambda: Structured._merge(*objs, merger=_merger))
    out["merge_inputs_unchanged"] = [_enc(o) for o in objs] == c["objs"]
    t = _build(c["tree"])
    errs = []
    for k, v in c["sets"]:
        try:
            t[k] = _build(v)
            errs.append(None)
        except Exception as e:
            errs.append(type(e).__name__)
    out["sets"] = {"errs": errs, "tree": _enc(t)}
    return out



# ----------------------------------------------------------------------------- impl: Structured container protocol


def _leaf_py(l):
    if "s" in l:
        return l["s"]
    if "i" in l:
        return l["i"]
    if "L" in l:
        return list(l["L"])
    if "S" in l:
        return set(l["S"])
    return dict((k, v) for k, v in l["D"])


def _build_so(v):
    from formulaic.utils.structured import Structured

    if "l" in v:
        return _leaf_py(v["l"])
    if "t" in v:
        return tuple(_build_so(x) for x in v["t"])
    pairs = [(k, _build_so(x)) for k, x in v["n"]]
    keys = [k for k, _ in pairs]
    if "root" not in keys or keys[-1] == "root":
        return Structured(**dict(pairs))
    s = Structured()
    for k, x in pairs:
        s._structure[k] = x  # exact insertion order (keys may be non-identifiers after a setattr)
    return s


def _leaf_enc(o):
    if isinstance(o, str):
        return {"s": o}
    if isinstance(o, bool):
        return {"?": repr(o)}
    if isinstance(o, int):
        return {"i": o}
    if isinstance(o, list):
        return {"L": list(o)}
    if isinstance(o, (set, frozenset)):
        return {"S": sorted(o)}
    if isinstance(o, dict):
        return {"D": [[k, x] for k, x in o.items()]}
    return {"?": repr(o)[:40]}


def _enc_so(o):
    from formulaic.utils.structured import Structured

    if isinstance(o, Structured):
        return {"n": [[k, _enc_so(x)] for k, x in o._structure.items()]}
    if isinstance(o, tuple):
        return {"t": [_enc_so(x) for x in o]}
    return {"l": _leaf_enc(o)}


def _enc_dict(o):
    """a `_to_dict` result: every Python dict (converted node or dict leaf alike) as {"d": …}"""
    from formulaic.utils.structured import Structured

    if isinstance(o, Structured):
        return _enc_so(o)
    if isinstance(o, dict):
        return {"d": [[k, _enc_dict(x)] for k, x in o.items()]}
    if isinstance(o, tuple):
        return {"t": [_enc_dict(x) for x in o]}
    return {"l": _leaf_enc(o)}


def _pykey(k):
    if isinstance(k, dict):
        return tuple(k["p"])
    return k


def _root_is_set(s):
    from formulaic.utils.structured import Structured

    while isinstance(s, Structured) and set(s._structure) == {"root"}:
        s = s._structure["root"]
    return isinstance(s, (set, frozenset))


def impl_so(c):
    from formulaic.utils.structured import Structured

    s = _build_so(c["tree"])
    if _enc_so(s) != c["tree"]:
        raise RuntimeError("harness could not build the requested tree")
    trace = []
    for op in c["ops"]:
        o = op["o"]
        extra = {}
        try:
            if o == "get":
                res = _enc_so(s[_pykey(op["key"])])
            elif o == "set":
                key = _pykey(op["key"])
                s[key] = _build_so(op["v"])
                res = None
                if isinstance(key, tuple):
                    extra["readback"] = _enc_so(s[key])
            elif o == "getattr":
                res = _enc_so(getattr(s, op["a"]))
            elif o == "setattr":
                setattr(s, op["a"], _build_so(op["v"]))
                res = None
            elif o == "iter":
                res = [_enc_so(x) for x in s]
                if _root_is_set(s):
                    res = sorted(res, key=str)
                    extra["unordered"] = True
            elif o == "len":
                res = len(s)
            elif o == "contains":
                res = op["key"] in s
            elif o == "eq":
                res = s == _build_so(op["other"])
                extra["eq_copy"] = s == _build_so(_enc_so(s))
                extra["eq_reversed"] = s == _build_so(_reversed_keys(_enc_so(s)))
                extra["ne_plain"] = (s == s._to_dict()) is False and (s == None) is False  # noqa: E711
            else:
                res = _enc_dict(s._to_dict(recurse=op["recurse"]))
        except Exception as e:
            res = {"error": type(e).__name__}
        trace.append(dict(res=res, state=_enc_so(s), **extra))
    out = {"trace": trace, "final": _enc_so(s)}
    objs = [_build_so(o) for o in c["merge"]]
    try:
        out["merge"] = _enc_so(Structured._merge(*objs))
    except Exception as e:
        out["merge"] = {"error": type(e).__name__}
    out["merge_inputs_unchanged"] = [_enc_so(o) for o in objs] == c["merge"]
    return out


def _reversed_keys(v):
    if "l" in v:
        return v
    if "t" in v:
        return {"t": [_reversed_keys(x) for x in v["t"]]}
    return {"n": [[k, _reversed_keys(x)] for k, x in reversed(v["n"])]}



# ----------------------------------------------------------------------------- impl: StructuredFormula constructor


def _formula_leaf(label):
    from formulaic import SimpleFormula
    from formulaic.parser.types import Factor, Term

    return SimpleFormula([Term([Factor(label, eval_method="lookup")])])


def _build_stf(v, bits):
    """nested values of an `stf` case: leaves are one-term formulas, nodes plain Structured or StructuredFormula"""
    from formulaic import StructuredFormula
    from formulaic.utils.structured import Structured

    if "l" in v:
        return _formula_leaf(v["l"])
    if "t" in v:
        return tuple(_build_stf(x, bits) for x in v["t"])
    as_sf = bits.pop(0) if bits else False
    pairs = [(k, _build_stf(x, bits)) for k, x in v["n"]]
    if as_sf:
        return StructuredFormula(**dict(pairs))
    s = Structured()
    for k, x in pairs:
        s._structure[k] = x
    return s


def _enc_stf(o):
    from formulaic import SimpleFormula
    from formulaic.utils.structured import Structured

    if isinstance(o, Structured):
        return {"n": [[k, _enc_stf(x)] for k, x in o._structure.items()]}
    if isinstance(o, tuple):
        return {"t": [_enc_stf(x) for x in o]}
    if isinstance(o, SimpleFormula) and len(o) == 1 and len(o[0].factors) == 1:
        return {"l": o[0].factors[0].expr}
    return {"l": "?" + repr(o)[:30]}


def _all_sf(o, top=True):
    from formulaic import StructuredFormula
    from formulaic.utils.structured import Structured

    if isinstance(o, Structured):
        return type(o) is StructuredFormula and all(_all_sf(x, False) for x in o._structure.values())
    if isinstance(o, tuple):
        return all(_all_sf(x, False) for x in o)
    return True


def impl_stf(c):
    from formulaic import Formula, StructuredFormula

    bits = list(c["bits"])[1:]  # the first node is the top one
    pairs = [(k, _build_stf(x, bits)) for k, x in c["tree"]["n"]]
    kw = dict(pairs)
    before = [[k, _enc_stf(x)] for k, x in pairs]
    out = {}
    try:
        f = StructuredFormula(**kw)
        out["ctor"] = _enc_stf(f)
        out["all_sf"] = _all_sf(f)
        out["flat"] = [_enc_stf(x) for x in f._flatten()]
        g = StructuredFormula(**f._structure)
        out["rebuild_same"] = _enc_stf(g) == out["ctor"]
        out["stays_simplified"] = _enc_stf(f._simplify(unwrap=False)) == out["ctor"]
        out["inputs_unchanged"] = [[k, _enc_stf(x)] for k, x in pairs] == before
    except Exception as e:
        out["ctor"] = {"error": type(e).__name__}
    if any(k != "root" for k in kw):
        try:
            out["call"] = _enc_stf(Formula(**kw))
        except Exception as e:
            out["call"] = {"error": type(e).__name__}
    return out



# ----------------------------------------------------------------------------- impl: OrderedSet


def impl_os(c):
    import operator

    from formulaic.parser.types import OrderedSet

    a = OrderedSet(c["xs"])
    out = {"init": list(a), "len": len(a), "trace": []}
    binop = {"or": operator.or_, "and": operator.and_, "xor": operator.xor, "le": operator.le, "lt": operator.lt,
             "ge": operator.ge, "gt": operator.gt, "eq": operator.eq}
    for op in c["ops"]:
        res = None
        try:
            o = op["o"]
            if o == "contains":
                res = op["x"] in a
            else:
                b = OrderedSet(op["xs"]) if op["isset"] else list(op["xs"])
                if o in ("or", "and", "xor"):
                    r = binop[o](b, a) if op.get("refl") else binop[o](a, b)
                elif o == "sub":
                    r = a - b
                elif o == "rsub":
                    r = b - a
                elif o == "isdisjoint":
                    r = a.isdisjoint(b)
                else:
                    r = binop[o](a, b)
                if isinstance(r, bool):
                    res = r
                elif type(r) is OrderedSet:
                    a = r
                else:
                    res = {"error": "not an OrderedSet: " + type(r).__name__}
        except Exception as e:
            res = {"error": type(e).__name__}
        out["trace"].append({"items": list(a), "len": len(a), "res": res})
    out["final"] = list(a)
    return out


# ----------------------------------------------------------------------------- impl: LayeredMapping


def _build_layer(l, registry):
    """build a supplied layer; returns (object, [the same for its own layers]) — the CALLER's objects, through which
    the `ext` operations write"""
    from formulaic.utils.layered_mapping import LayeredMapping

    if l is None:
        return None
    if "d" in l:
        d = dict((k, v) for k, v in l["d"])
        registry.append(d)
        return (d, [])
    kids = [x for x in (_build_layer(y, registry) for y in l["layers"]) if x is not None]
    lm = LayeredMapping(*[k[0] for k in kids], name=l["name"])
    for k, v in l["m"]:
        lm[k] = v
    registry.append(lm)
    return (lm, kids)


def _snap(o):
    from formulaic.utils.layered_mapping import LayeredMapping

    if isinstance(o, LayeredMapping):
        return {"name": o.name, "m": [[k, v] for k, v in o._mutations.items()], "layers": [_snap(x) for x in o._layers]}
    return {"d": [[k, v] for k, v in o.items()]}


def _lm_obs(m, err, res=None, named=False):
    try:
        keys = list(m)
        view = []
        for k in keys:
            try:
                view.append([k, m[k]])
            except KeyError:
                view.append([k, "<KeyError>"])
        out = {"err": err, "res": res, "view": view, "len": len(m), "name": m.name}
        if named:
            out["named"] = [[n, _snap(l)] for n, l in m.named_layers.items()]
        return out
    except Exception as e:
        return {"err": err, "broken": type(e).__name__}


def impl_lm(c):
    from formulaic.utils.layered_mapping import LayeredMapping

    registry = []
    tree = [x for x in (_build_layer(l, registry) for l in c["layers"]) if x is not None]  # owners' objects
    m = LayeredMapping(*[x[0] for x in tree], name=c["name"])
    before = [_snap(o) for o in registry]
    out = {"init": _lm_obs(m, None, named=c.get("named0", False)), "trace": []}
    supplied_ok = True
    for op in c["ops"]:
        err, res = None, None
        try:
            o = op["o"]
            if o == "ext":
                # not an operation of the mapping: the owner of one of its layers writes that layer
                supplied_ok = supplied_ok and [_snap(x) for x in registry] == before
                obj, kids = m, tree
                for i in op["path"]:
                    obj, kids = kids[i]
                store = obj._mutations if isinstance(obj, LayeredMapping) else obj
                if op["del"]:
                    store.pop(op["k"], None)
                else:
                    store[op["k"]] = op["v"]
                before = [_snap(x) for x in registry]
            elif o == "set":
                m[op["k"]] = op["v"]
            elif o == "del":
                del m[op["k"]]
            elif o == "pop":
                res = {"v": m.pop(op["k"], op["d"]) if op["hasd"] else m.pop(op["k"])}
            elif o == "popitem":
                res = {"item": list(m.popitem())}
            elif o == "clear":
                m.clear()
            elif o == "setdefault":
                res = {"v": m.setdefault(op["k"], op["d"])}
            elif o == "update":
                m.update([(k, v) for k, v in op["pairs"]])
            else:
                n0 = len(registry)
                new = [x for x in (_build_layer(l, registry) for l in op["layers"]) if x is not None]
                before += [_snap(o) for o in registry[n0:]]
                m2 = m.with_layers(*[x[0] for x in new], prepend=op["prepend"], inplace=op["inplace"], name=op["name"])
                if new:
                    if op["inplace"]:
                        tree = new + tree if op["prepend"] else tree + new
                    else:
                        tree = new + [(m, tree)] if op["prepend"] else [(m, tree)] + new
                m = m2
        except Exception as e:
            err = type(e).__name__
        out["trace"].append(_lm_obs(m, err, res, named=op.get("named", False)))
    out["supplied_unchanged"] = supplied_ok and [_snap(o) for o in registry] == before
    probe = []
    for k in c["probe"]:
        try:
            g = m[k]
        except KeyError:
            g = "<KeyError>"
        v, n = m.get_with_layer_name(k)
        probe.append({"k": k, "in": k in m, "get": g, "named": [v, n], "layer_name": m.get_layer_name_for_key(k)})
    out["probe"] = probe
    attrs = []
    for a in c.get("attrs", []):
        try:
            attrs.append(_snap(getattr(m, a)))
        except Exception as e:
            attrs.append(type(e).__name__)
    out["attrs"] = attrs
    out["named_final"] = [[n, _snap(l)] for n, l in m.named_layers.items()]
    out["self_snap"] = _snap(m)
    out["items_consistent"] = (
        list(m.keys()) == list(m) and [list(kv) for kv in m.items()] == out["trace"][-1]["view"]
        if out["trace"] and "view" in out["trace"][-1]
        else True
    )
    return out


# ----------------------------------------------------------------------------- impl: SimpleFormula


def _term(t):
    from formulaic.parser.types import Factor, Term

    if t is None:
        return "not-a-term"
    return Term([Factor(f["x"], eval_method=f["m"]) for f in t])


def _terms_out(f):
    return [[dict(x=fa.expr, m=fa.eval_method.value) for fa in t.factors] for t in f]


def impl_sf(c):
    from formulaic import SimpleFormula

    f = SimpleFormula([_term(t) for t in c["terms"]], _ordering=c["ordering"])
    out = {"init": _terms_out(f), "trace": []}
    for op in c["ops"]:
        err, res = None, None
        try:
            o = op["o"]
            if o == "insert":
                f.insert(op["i"], _term(op["t"]))
            elif o == "set":
                f[op["i"]] = _term(op["t"])
            elif o == "del":
                del f[op["i"]]
            elif o == "delslice":
                del f[op["a"] : op["b"]]
            elif o == "append":
                f.append(_term(op["t"]))
            elif o == "extend":
                f.extend([_term(t) for t in op["ts"]])
            elif o == "pop":
                f.pop(op["i"])
            elif o == "iadd":
                g = f
                f += [_term(t) for t in op["ts"]]
                if g is not f:
                    raise RuntimeError("+= rebinds the formula")
            elif o == "setslice":
                f[slice(op["a"], op["b"], None if op["c"] == 1 else op["c"])] = (
                    [_term(t) for t in op["ts"]] if "ts" in op else _term(op["t"])
                )
            elif o == "delslicex":
                del f[slice(op["a"], op["b"], op["c"])]
            elif o == "clear":
                f.clear()
            elif o == "remove":
                f.remove(_term(op["t"]))
            elif o == "getslice":
                g = f[slice(op["a"], op["b"], op["c"])]
                if type(g) is not type(f) or g.ordering is not f.ordering:
                    raise RuntimeError("a slice is not a formula with the same ordering")
                res = {"terms": _terms_out(g)}
            elif o == "index":
                res = {"n": f.index(_term(op["t"]))}
            elif o == "count":
                res = {"n": f.count(_term(op["t"]))}
            elif o == "contains":
                res = {"b": _term(op["t"]) in f}
            elif o == "reversed":
                res = {"terms": _terms_out(reversed(f))}
            elif o == "eq":
                other = [_term(t) for t in op["other"]]
                a, b = f == other, f == SimpleFormula(other, _ordering="none")
                if a is not b:
                    raise RuntimeError("== against a list and against a formula differ")
                res = {"b": a}
            elif o == "eqforeign":
                x = {"int": 5, "str": "a + b", "none": None, "tuple": tuple(f)}[op["x"]]
                res = {"b": (f == x) is True}
            else:
                f.reverse()
        except Exception as e:
            err = type(e).__name__
        out["trace"].append({"terms": _terms_out(f), "err": err, "res": res})
    out["final"] = _terms_out(f)
    out["ctors"] = []
    for ct in c.get("ctors", []):
        kw = {"a": [_term([{"x": "a", "m": "lookup"}])]} if ct["kw"] else {}
        try:
            if ct["arg"] == "missing":
                g = SimpleFormula(_ordering=c["ordering"], **kw)
            elif ct["arg"] == "notterms":
                g = SimpleFormula({"str": "a + b", "int": 5, "none": None}[ct["what"]], _ordering=c["ordering"], **kw)
            else:
                ts = [_term(t) for t in ct["ts"]]
                root = {"list": ts, "tuple": tuple(ts), "generator": (t for t in ts)}[ct["as"]]
                g = SimpleFormula(root, _ordering=c["ordering"], **kw)
            out["ctors"].append(_terms_out(g))
        except Exception as e:
            out["ctors"].append(type(e).__name__)
    return out


def impl(c):
    return {"st": impl_st, "so": impl_so, "stf": impl_stf, "os": impl_os, "lm": impl_lm, "sf": impl_sf}[c["k"]](c)


# ----------------------------------------------------------------------------- request / agree


def request(c, o):
    if c["k"] == "st":
        return dict(op="st", tree=c["tree"], objs=c["objs"], upd=c["upd"], sets=c["sets"])
    if c["k"] == "so":
        return dict(op="so", tree=c["tree"], ops=c["ops"], merge=c["merge"])
    if c["k"] == "stf":
        return dict(op="stf", tree=c["tree"])
    if c["k"] == "os":
        return dict(op="os", xs=c["xs"], ops=c["ops"])
    if c["k"] == "lm":
        return dict(op="lm", name=c["name"], layers=c["layers"], ops=c["ops"], probe=c["probe"], attrs=c.get("attrs", []))
    return dict(op="sf", ordering=c["ordering"], terms=c["terms"], ops=c["ops"], ctors=c.get("ctors", []))


def _cmp(o, m, fields):
    for f in fields:
        if o.get(f) != m.get(f):
            return f"field `{f}`: impl {str(o.get(f))[:160]} vs model {str(m.get(f))[:160]}"
    return None


def agree(c, o, m):
    if "driver_error" in m:
        return "driver: " + m["driver_error"][:300]
    if "harness_exception" in o:
        return "harness: " + o["harness_exception"]
    if "error" in m and len(m) == 1:
        return "model error: " + str(m["error"])
    if c["k"] == "st":
        why = _cmp(
            o,
            m,
            ["map", "log", "flat", "flat_mapped", "paths", "map1", "map_nr", "simp", "simp_default_again", "simp_same_again",
             "simp_inplace_unwrap", "update", "merge", "sets"],
        )
        if why:
            return why
        if m.get("merge_more_fuel") != m.get("merge"):
            return "model: merge depends on the fuel"
        want = [m["simp_inplace"][0], m["simp_inplace"][1]]
        got = [x.get("res", x) for x in o["simp_inplace"]]
        if got != want:
            return f"field `simp_inplace`: impl {str(got)[:160]} vs model {str(want)[:160]}"
        return None
    if c["k"] == "stf":
        return _cmp(o, m, ["ctor"] + (["call"] if "call" in o else []))
    if c["k"] == "os":
        return _cmp(o, m, ["init", "len", "trace", "final"])
    if c["k"] == "so":
        if len(o["trace"]) != len(m.get("trace", [])):
            return "trace lengths differ"
        for i, (a, b) in enumerate(zip(o["trace"], m["trace"])):
            ra, rb = a["res"], b["res"]
            if a.get("unordered") and isinstance(rb, list):
                rb = sorted(rb, key=str)
            if ra != rb:
                return f"op {i} {c['ops'][i]['o']}: impl returns {str(ra)[:160]} vs model {str(rb)[:160]}"
            if a["state"] != b["state"]:
                return f"op {i} {c['ops'][i]['o']}: state impl {str(a['state'])[:160]} vs model {str(b['state'])[:160]}"
        if m.get("final") != o["final"]:
            return "final state: impl vs model `run` differ"
        return _cmp(o, m, ["merge"])
    if c["k"] == "lm":
        steps = [(o["init"], m.get("init"))] + list(zip(o["trace"], m.get("trace", [])))
        if len(o["trace"]) != len(m.get("trace", [])):
            return "trace lengths differ"
        for i, (a, b) in enumerate(steps):
            for f in a:  # `named` only where the harness read it
                if a[f] != (b or {}).get(f):
                    return f"step {i - 1} field `{f}`: impl {str(a[f])[:160]} vs model {str((b or {}).get(f))[:160]}"
        why = _cmp(o, m, ["probe", "attrs"])
        if why:
            return why
        if m.get("final_is_run") is not True:
            return "model: `trace` and `run` differ"
        return None
    why = _cmp(o, m, ["init", "trace", "final", "ctors"])
    return why


# ----------------------------------------------------------------------------- oracle (no model)


def _plain(v, f=None, ctx=()):
    """order-insensitive dictionary view of an encoded value; leaves optionally mapped with f(leaf, ctx)"""
    if "l" in v:
        return ("leaf", v["l"] if f is None else f(v["l"], ctx))
    if "t" in v:
        return ("tup", tuple(_plain(x, f, ctx + (i,)) for i, x in enumerate(v["t"])))
    return ("node", frozenset((k, _plain(x, f, ctx + (k,))) for k, x in v["n"]))


def _plain_nr(tree):
    """reference for `_map(_mapfn_nr, recurse=False)`"""

    def ap(v, ctx):
        if "t" in v:
            return ("tup", tuple(ap(x, ctx + (i,)) for i, x in enumerate(v["t"])))
        d = v["l"] if "l" in v else "S[" + ",".join(k for k, _ in v["n"]) + "]"
        return ("leaf", d + "@" + ".".join(map(str, ctx)))

    return ("node", frozenset((k, ap(x, (k,))) for k, x in tree["n"]))


def _shape(v):
    return _plain(v, lambda x, c: None)


def _flat(v):
    if "l" in v:
        return [v["l"]]
    if "t" in v:
        return [y for x in v["t"] for y in _flat(x)]
    return [y for _, x in v["n"] for y in _flat(x)]


def _root_last(v):
    if "l" in v:
        return True
    if "t" in v:
        return all(_root_last(x) for x in v["t"])
    ks = [k for k, _ in v["n"]]
    return ("root" not in ks or ks[-1] == "root") and all(_root_last(x) for _, x in v["n"])


class _Mis(Exception):
    pass


def _ref_merge(objs, top):
    """independent restatement of `_merge` as a key-wise dictionary merge on encoded values;
    returns a `_plain` value; raises _Mis(kind) where the code must raise"""
    if not objs:
        return ("node", frozenset())
    tups = ["t" in o for o in objs]
    if any(tups) and not all(tups):
        raise _Mis("ValueError")
    if all(tups):
        cat = ("tup", tuple(_plain(x) for o in objs for x in o["t"]))
        return ("node", frozenset([("root", cat)])) if top else cat
    if all("l" in o for o in objs):
        xs = [o["l"] for o in objs]
        if "bad" in xs:
            raise _Mis("NotImplementedError")
        return ("leaf", "(" + "+".join(xs) + ")")
    dicts = [dict((k, x) for k, x in o["n"]) if "n" in o else {"root": o} for o in objs]
    keys = list(dict.fromkeys(k for d in dicts for k in d))
    errs, out = [], []
    for k in keys:
        vals = [d[k] for d in dicts if k in d]
        if len(vals) == 1:
            out.append((k, _plain(vals[0])))
        else:
            try:
                out.append((k, _ref_merge(vals, False)))
            except _Mis as e:
                errs.append(e.args[0])
    if errs:
        raise _Mis(*errs)
    return ("node", frozenset(out))


def oracle_st(c, o):
    tree = c["tree"]
    # --- map: shape, visit order, values
    if [x for x, _ in o["log"]] != o["flat"]:
        return f"_map visited leaves {[x for x, _ in o['log']]} but _flatten yields {o['flat']} (each leaf exactly once, in flatten order)"
    if o["flat"] != _flat(tree):
        return f"_flatten yields {o['flat']}, the leaves of the structure in order are {_flat(tree)}"
    if _shape(o["map"]) != _shape(tree):
        return "_map changed the shape of the structure"
    if _plain(o["map"]) != _plain(tree, _mapfn):
        return "_map result is not the structure with every leaf replaced by func(leaf, context)"
    want = [_mapfn(x, tuple(p)) for x, p in o["log"]]
    if Counter(map(str, o["flat_mapped"])) != Counter(want):
        return f"leaves of the mapped structure {o['flat_mapped']} are not the images of the leaves {want}"
    if _root_last(tree) and o["flat_mapped"] != want:
        return f"flatten(map f s) = {o['flat_mapped']} differs from map f (flatten s) = {want}"
    if "error" in o["map1"] or _plain(o["map1"]) != _plain(tree, lambda x, c: x + "!"):
        return "_map with a one-argument function is not the structure with every leaf replaced by func(leaf)"
    if "error" in o["map_nr"] or _plain(o["map_nr"]) != _plain_nr(tree):
        return "_map(recurse=False) did not apply func once to every top-level object (tuples element-wise)"
    for (x, p), got in zip(o["log"], o["paths"]):
        if got != {"l": x}:
            return f"context {p} handed to func for leaf {x} does not address that leaf (lookup gives {got})"
    if not (o["unchanged_after_map"] and o["unchanged_after_simplify"] and o["unchanged_after_update"]):
        return "a non-inplace operation mutated the structure"
    # --- simplify
    for (r, u), res, again in zip([(1, 1), (1, 0), (0, 1), (0, 0)], o["simp"], o["simp_same_again"]):
        if "error" in res:
            return f"_simplify(recurse={bool(r)}, unwrap={bool(u)}) raised {res['error']}"
        if _flat(res) != _flat(tree):
            return f"_simplify(recurse={bool(r)}, unwrap={bool(u)}) changed the leaves: {_flat(res)} vs {_flat(tree)}"
        if again is not None and again != res:
            return f"_simplify(recurse={bool(r)}, unwrap={bool(u)}) is not idempotent: {res} then {again}"
    if o["simp_default_again"][0] is not None and o["simp_default_again"][0] != o["simp"][0]:
        return "_simplify() is not idempotent"
    for x in o["simp_inplace"]:
        if "error" in x:
            return f"_simplify(inplace=True, unwrap=False) raised {x['error']}"
        if not x["is_self"] or x["res"] != x["self"] or _flat(x["res"]) != _flat(tree):
            return "_simplify(inplace=True) did not simplify the object itself leaf-preservingly"
    # --- update
    kwkeys = [k for k, _ in c["upd"]["kw"]]
    if not any(k.startswith("_") for k in kwkeys):
        if "error" in o["update"]:
            return f"_update raised {o['update']['error']}"
        d = dict((k, _plain(x)) for k, x in tree["n"])
        d.update((k, _plain(x)) for k, x in c["upd"]["kw"])
        if c["upd"]["root"] is not None:
            d["root"] = _plain(c["upd"]["root"])
        if _plain(o["update"]) != ("node", frozenset(d.items())):
            return "_update is not the dictionary merge {**structure, **updates}"
    # --- merge
    if not o["merge_inputs_unchanged"]:
        return "_merge mutated its arguments"
    try:
        want = _ref_merge(c["objs"], True)
        if "error" in o["merge"]:
            return f"_merge raised {o['merge']['error']} on mergeable structures"
        if _plain(o["merge"]) != want:
            return "_merge is not the key-wise dictionary merge of the structures"
    except _Mis as e:
        if "error" not in o["merge"]:
            return f"_merge returned a value although a sub-merge must fail ({e.args})"
        if o["merge"]["error"] not in e.args:
            return f"_merge raised {o['merge']['error']}, expected one of {e.args}"
    return None



# --- oracle: Structured container protocol (reference computations on the encoded values)


def _cv(v):
    """order-insensitive canonical form of an encoded value (dicts of Structured and dict leaves
    as frozensets, sets already sorted)"""
    if "l" in v:
        l = v["l"]
        if "D" in l:
            return ("leaf", "D", frozenset((k, x) for k, x in l["D"]))
        return ("leaf", json_dumps(l))
    if "t" in v:
        return ("tup", tuple(_cv(x) for x in v["t"]))
    return ("node", frozenset((k, _cv(x)) for k, x in v["n"]))


def json_dumps(x):
    import json

    return json.dumps(x, sort_keys=True)


def _ref_walk(v, path):
    """reference tuple-path lookup on an encoded value: value | exception class name"""
    for e in path:
        if "n" in v and isinstance(e, str) and any(k == e for k, _ in v["n"]):
            v = dict((k, x) for k, x in v["n"])[e]
        elif "t" in v and isinstance(e, int) and not isinstance(e, bool):
            if not -len(v["t"]) <= e < len(v["t"]):
                return "IndexError"
            v = v["t"][e]
        else:
            return "KeyError"
    return v


def _ref_assign(v, path, val):
    """encoded value with the place `path` (resolved as by _ref_walk) replaced/added"""
    if not path:
        return val
    e = path[0]
    if "n" in v:
        items = [[k, x] for k, x in v["n"]]
        for kv in items:
            if kv[0] == e:
                kv[1] = _ref_assign(kv[1], path[1:], val)
                return {"n": items}
        return {"n": items + [[e, val]]} if len(path) == 1 else None
    t = list(v["t"])
    t[e] = _ref_assign(t[e], path[1:], val)
    return {"t": t}


def _ref_getitem(v, k):
    """reference `obj[k]` for a non-tuple key on an encoded value: value | exception class name"""
    isint = isinstance(k, int) and not isinstance(k, bool)
    if "n" in v:
        d = dict((kk, x) for kk, x in v["n"])
        if list(d) == ["root"]:
            return _ref_getitem(d["root"], k)  # a structure with nothing but a root stands for its root
        if k in (None, "root"):
            return d.get("root", "KeyError")
        if isinstance(k, str) and not k.startswith("_") and k in d:
            return d[k]
        return "KeyError"
    if "t" in v:
        if not isint:
            return "TypeError"
        return v["t"][k] if -len(v["t"]) <= k < len(v["t"]) else "IndexError"
    l = v["l"]
    if "s" in l or "L" in l:
        seq = l["s"] if "s" in l else l["L"]
        if not isint:
            return "TypeError"
        if not -len(seq) <= k < len(seq):
            return "IndexError"
        return {"l": {"s": seq[k]}} if "s" in l else {"l": {"i": seq[k]}}
    if "D" in l:
        d = dict((kk, x) for kk, x in l["D"])
        return {"l": {"i": d[k]}} if k in d else "KeyError"
    return "TypeError"


def _ref_iter(v):
    """reference iteration of an encoded Structured"""
    keys = [k for k, _ in v["n"]]
    d = dict((k, x) for k, x in v["n"])
    if keys == ["root"]:
        r = d["root"]
        if "t" in r:
            return r["t"]
        if "n" in r:
            return _ref_iter(r)
        l = r["l"]
        if "s" in l:
            return [{"l": {"s": ch}} for ch in l["s"]]
        if "L" in l:
            return [{"l": {"i": x}} for x in l["L"]]
        if "S" in l:
            return [{"l": {"i": x}} for x in l["S"]]
        if "D" in l:
            return [{"l": {"s": k}} for k, _ in l["D"]]
    return ([d["root"]] if "root" in d else []) + [x for k, x in v["n"] if k != "root"]


def _undict(v):
    if "d" in v:
        return {"n": [[k, _undict(x)] for k, x in v["d"]]}
    if "t" in v:
        return {"t": [_undict(x) for x in v["t"]]}
    if "n" in v:
        return {"n": [[k, _dleaf(x)] for k, x in v["n"]]}
    return v


def _dleaf(v):
    """a state value in which dict LEAVES are written like converted nodes (what `_to_dict` cannot tell apart)"""
    if "l" in v:
        if "D" in v["l"]:
            return {"n": [[k, {"l": {"i": x}}] for k, x in v["l"]["D"]]}
        return v
    if "t" in v:
        return {"t": [_dleaf(x) for x in v["t"]]}
    return {"n": [[k, _dleaf(x)] for k, x in v["n"]]}


def _dshallow(v):
    """a stored value as `_to_dict(recurse=False)` shows it: nested Structured instances stay, tuples are kept"""
    if "n" in v:
        return v
    if "t" in v:
        return {"t": [_dshallow(x) for x in v["t"]]}
    if "D" in v["l"]:
        return {"d": [[k, {"l": {"i": x}}] for k, x in v["l"]["D"]]}
    return v


def _has_n(v):
    if "n" in v:
        return True
    if "t" in v:
        return any(_has_n(x) for x in v["t"])
    if "d" in v:
        return any(_has_n(x) for _, x in v["d"])
    return False


def _leaf_merge(ls):
    if all("L" in l for l in ls):
        return {"L": [x for l in ls for x in l["L"]]}
    if all("S" in l for l in ls):
        return {"S": sorted(set(x for l in ls for x in l["S"]))}
    if all("D" in l for l in ls):
        d = {}
        for l in ls:
            d.update((k, x) for k, x in l["D"])
        return {"D": [[k, x] for k, x in d.items()]}
    raise _Mis("NotImplementedError")


def _ref_merge_so(objs, top):
    """`_merge` with the default merger as a key-wise dictionary merge; canonical (`_cv`) result"""
    if not objs:
        return ("node", frozenset())
    tups = ["t" in o for o in objs]
    if any(tups) and not all(tups):
        raise _Mis("ValueError")
    if all(tups):
        cat = ("tup", tuple(_cv(x) for o in objs for x in o["t"]))
        return ("node", frozenset([("root", cat)])) if top else cat
    if all("l" in o for o in objs):
        return _cv({"l": _leaf_merge([o["l"] for o in objs])})
    dicts = [dict((k, x) for k, x in o["n"]) if "n" in o else {"root": o} for o in objs]
    keys = list(dict.fromkeys(k for d in dicts for k in d))
    errs, out = [], []
    for k in keys:
        vals = [d[k] for d in dicts if k in d]
        if len(vals) == 1:
            out.append((k, _cv(vals[0])))
        else:
            try:
                out.append((k, _ref_merge_so(vals, False)))
            except _Mis as e:
                errs += list(e.args)
    if errs:
        raise _Mis(*errs)
    return ("node", frozenset(out))


def oracle_so(c, o):
    prev = c["tree"]
    for op, st in zip(c["ops"], o["trace"]):
        kind, res, new = op["o"], st["res"], st["state"]
        failed = isinstance(res, dict) and "error" in res
        if kind not in ("set", "setattr") or failed:
            if new != prev:
                return f"{kind} ({'failed' if failed else 'read-only'}) changed the structure: {prev} -> {new}"
        if kind == "get" and isinstance(op["key"], dict):
            want = _ref_walk(prev, op["key"]["p"])
            got = res["error"] if failed else res
            if got != want:
                return f"s[{tuple(op['key']['p'])}] gives {got}, walking the structure gives {want}"
        if kind == "set" and not failed:
            key = op["key"]
            path = key["p"] if isinstance(key, dict) else [key]
            want = _ref_assign(prev, path, op["v"])
            if want is None or _cv(new) != _cv(want):
                return f"s[{path}] = v changed more/less than the addressed place: {prev} -> {new}"
            if isinstance(key, dict) and st.get("readback") != op["v"]:
                return f"s[{tuple(path)}] after s[{tuple(path)}] = v returns {st.get('readback')}, assigned {op['v']}"
        if kind == "set" and not isinstance(op["key"], dict):
            k = op["key"]
            valid = isinstance(k, str) and k.isidentifier() and not k.startswith("_")
            if failed and valid:
                return f"s[{k!r}] = v raised {res['error']} for a valid key"
            if not valid and (not failed or res["error"] != "KeyError"):
                return f"s[{k!r}] = v must raise KeyError (keys are identifiers that do not start with '_'), got {res}"
        if kind == "get" and not isinstance(op["key"], dict):
            want = _ref_getitem(prev, op["key"])
            if (res["error"] if failed else res) != want:
                return f"s[{op['key']!r}] gives {res}, the structure (root-only structures stand for their root) holds {want}"
        if kind == "setattr" and not failed and not op["a"].startswith("_"):
            want = _ref_assign(prev, [op["a"]], op["v"])
            if _cv(new) != _cv(want):
                return f"setattr {op['a']} changed more/less than that key"
        if kind == "getattr":
            d = dict((k, x) for k, x in prev["n"])
            a = op["a"]
            want = d[a] if (a in d and not a.startswith("_")) else "AttributeError"
            if (res["error"] if failed else res) != want:
                return f"s.{a} gives {res}, the structure holds {want}"
        if kind == "iter":
            want = _ref_iter(prev)
            if st.get("unordered"):
                want = sorted(want, key=str)
            if res != want:
                return f"iteration yields {res}, root-first insertion order is {want}"
        if kind == "len":
            if res != len(_ref_iter(prev)):
                return f"len() = {res} but iteration yields {len(_ref_iter(prev))} items"
        if kind == "contains":
            want = isinstance(op["key"], str) and any(k == op["key"] for k, _ in prev["n"])
            if res != want:
                return f"`{op['key']!r} in s` is {res}"
        if kind == "eq":
            if failed:
                return f"== raised {res['error']}"
            want = "n" in op["other"] and _cv(op["other"]) == _cv(prev)
            if res != want:
                return f"s == other is {res}; as dictionaries they are {'equal' if want else 'different'}"
            if not (st["eq_copy"] and st["eq_reversed"] and st["ne_plain"]):
                return "== is not reflexive / depends on key order / accepts a non-Structured"
        if kind == "todict":
            if failed:
                return f"_to_dict raised {res['error']}"
            back = _undict(res)
            want = _dleaf(prev) if op["recurse"] else {"n": [[k, _dleaf(x)] for k, x in prev["n"]]}
            if op["recurse"]:
                if _has_n(res):
                    return "_to_dict() left a Structured instance inside the dictionary"
                if back != want:
                    return f"_to_dict() = {res} is not the structure {prev} as nested dictionaries"
            else:
                if res != {"d": [[k, _dshallow(x)] for k, x in prev["n"]]}:
                    return f"_to_dict(recurse=False) = {res} is not the top-level dictionary of {prev}"
        prev = new
    if o["final"] != prev:
        return "final state differs from the last observed state"
    if not o["merge_inputs_unchanged"]:
        return "_merge mutated its arguments"
    try:
        want = _ref_merge_so(c["merge"], True)
        if "error" in o["merge"]:
            return f"_merge (default merger) raised {o['merge']['error']} on mergeable structures"
        if _cv(o["merge"]) != want:
            return "_merge with the default merger is not the key-wise merge (lists concatenate, sets unite, dicts merge)"
    except _Mis as e:
        if "error" not in o["merge"]:
            return f"_merge returned a value although a sub-merge must fail ({e.args})"
        if o["merge"]["error"] not in e.args:
            return f"_merge raised {o['merge']['error']}, expected one of {e.args}"
    return None


def oracle_stf(c, o):
    tree = c["tree"]
    bad = any(k.startswith("_") for k, _ in tree["n"])
    if "error" in o["ctor"]:
        return None if bad and o["ctor"]["error"] == "ValueError" else f"StructuredFormula(...) raised {o['ctor']['error']}"
    if bad:
        return "StructuredFormula accepted a key that starts with '_'"
    if not o["all_sf"]:
        return "a nested Structured was not converted to a StructuredFormula"
    if sorted(x["l"] for x in o["flat"]) != sorted(_flat(tree)):
        return f"the constructor's in-place simplification changed the leaves: {o['flat']} vs {_flat(tree)}"
    if _root_last(tree) and [x["l"] for x in o["flat"]] != _flat(tree):
        return f"the constructor re-ordered the leaves: {o['flat']} vs {_flat(tree)}"
    if not o["rebuild_same"]:
        return "re-constructing a StructuredFormula from its own structure changes it (simplification is not idempotent)"
    if not o["stays_simplified"]:
        return "a freshly constructed StructuredFormula is not simplified: _simplify(unwrap=False) still changes it"
    if not o["inputs_unchanged"]:
        return "the constructor mutated the objects it was given"
    if "call" in o:
        if "error" in o["call"]:
            return f"Formula(**structure) raised {o['call']['error']}"
        if sorted(_flat(o["call"])) != sorted(_flat(tree)):
            return "Formula(**structure) lost or invented leaves"
    return None


def _uniq(xs):
    return list(dict.fromkeys(xs))


def oracle_os(c, o):
    if o["init"] != _uniq(c["xs"]) or o["len"] != len(set(c["xs"])):
        return f"OrderedSet({c['xs']}) iterates as {o['init']} with len {o['len']}"
    prev = o["init"]
    for op, st in zip(c["ops"], o["trace"]):
        kind, new, res = op["o"], st["items"], st["res"]
        if isinstance(res, dict) and kind not in ("le", "lt", "ge", "gt"):
            return f"{kind} raised / returned {res}"
        if len(set(new)) != len(new) or st["len"] != len(new):
            return f"after {kind} the set iterates as {new} with len {st['len']} (duplicates / inconsistent length)"
        if kind == "contains":
            if res != (op["x"] in prev) or new != prev:
                return f"`{op['x']} in s` is {res} for {prev}"
        else:
            other = _uniq(op["xs"])
            if kind == "or":
                want = _uniq(prev + op["xs"])
            elif kind == "and":
                want = [x for x in other if x in prev]
            elif kind == "sub":
                want = [x for x in prev if x not in other]
            elif kind == "rsub":
                want = [x for x in other if x not in prev]
            elif kind == "xor":
                want = [x for x in prev if x not in other] + [x for x in other if x not in prev]
            else:
                want = prev
            if kind in ("or", "sub", "rsub", "xor"):
                if new != want:
                    return f"{prev} {kind} {op['xs']} iterates as {new}, insertion order gives {want}"
            elif kind == "and":
                if set(new) != set(want):
                    return f"{prev} & {op['xs']} = {new}"
            elif new != prev:
                return f"{kind} changed the set"
            if kind == "isdisjoint" and res != (not set(prev) & set(other)):
                return f"isdisjoint is {res}"
            if kind in ("le", "lt", "ge", "gt", "eq"):
                if not op["isset"]:
                    if (kind == "eq" and res is not False) or (kind != "eq" and res != {"error": "TypeError"}):
                        return f"comparison `{kind}` with a list gives {res}"
                else:
                    p, q = set(prev), set(other)
                    want_b = {"le": p <= q, "lt": p < q, "ge": p >= q, "gt": p > q, "eq": p == q}[kind]
                    if res != want_b:
                        return f"{prev} {kind} {other} is {res}, as sets it is {want_b}"
        prev = new
    if o["final"] != prev:
        return "final state differs from the last observed state"
    return None


def _ref_layer(l):
    """the plain dict a supplied layer stands for (iteration order = dict order)"""
    if "d" in l:
        return dict((k, v) for k, v in l["d"])
    return _ref_stack(dict((k, v) for k, v in l["m"]), [y for y in l["layers"] if y is not None])


def _overlay(top, below):
    """dict whose lookups prefer `top`, iteration order: keys of top first, then new keys of below"""
    out = dict(top)
    for k, v in below.items():
        if k not in out:
            out[k] = v
    return out


def _ref_stack(muts, layers):
    d = dict(muts)
    for l in layers:
        d = _overlay(d, _ref_layer(l))
    return d


def _ref_resolve(node, n):
    """which layer a name stands for: the mapping itself, else its first direct child of that name,
    else the first child (top first) inside which the name resolves"""
    if "d" in node:
        return None
    if node["name"] == n:
        return node
    kids = [l for l in node["layers"] if l is not None and "d" not in l]
    for l in kids:
        if l["name"] == n:
            return l
    for l in kids:
        r = _ref_resolve(l, n)
        if r is not None:
            return r
    return None


def _ref_names(node):
    if node is None or "d" in node:
        return set()
    out = {node["name"]} if node["name"] else set()
    for l in node["layers"]:
        out |= _ref_names(l)
    return out


def _strip(node):
    """reference node in the form `_snap` reports (no None layers)"""
    if "d" in node:
        return node
    return {"name": node["name"], "m": node["m"], "layers": [_strip(l) for l in node["layers"] if l is not None]}


def oracle_lm(c, o):
    if not o["supplied_unchanged"]:
        return "a supplied layer was mutated"
    muts, layers, name = {}, copy.deepcopy([l for l in c["layers"] if l is not None]), c["name"]
    steps = [(None, o["init"])] + list(zip(c["ops"], o["trace"]))
    for op, obs in steps:
        if "broken" in obs:
            return f"iteration/len/lookup raised {obs['broken']}"
        if op is not None:
            before = _ref_stack(muts, layers)
            kind, err, res = op["o"], obs["err"], obs.get("res")
            if kind == "set":
                muts[op["k"]] = op["v"]
                if err:
                    return f"__setitem__ raised {err}"
            elif kind == "del":
                if op["k"] in muts:
                    del muts[op["k"]]
                    if err:
                        return f"__delitem__ of a key of the private layer raised {err}"
                elif err != "KeyError":
                    return "__delitem__ of a key that is not in the private layer must raise KeyError"
            elif kind == "pop":
                k = op["k"]
                if k in muts:
                    if err or res != {"v": before[k]}:
                        return f"pop({k}) of a privately written key gives {res}/{err}, the mapping held {before[k]}"
                    del muts[k]
                elif k in before:
                    if err != "KeyError":
                        return f"pop({k}) of a key that lives only in a supplied layer must raise KeyError (writes are confined to the private layer), got {res}/{err}"
                elif op["hasd"]:
                    if err or res != {"v": op["d"]}:
                        return f"pop({k}, default) of a missing key gives {res}/{err}"
                elif err != "KeyError":
                    return f"pop({k}) of a missing key must raise KeyError"
            elif kind == "popitem":
                first = next(iter(before), None)
                if first is not None and first in muts:
                    if err or res != {"item": [first, before[first]]}:
                        return f"popitem() gives {res}/{err}, first item is {[first, before[first]]}"
                    del muts[first]
                elif err != "KeyError":
                    return f"popitem() must raise KeyError when the first key is not privately written / the mapping is empty, got {res}/{err}"
            elif kind == "clear":
                if err:
                    return f"clear() raised {err}"
                muts = {}
            elif kind == "setdefault":
                k = op["k"]
                if err:
                    return f"setdefault raised {err}"
                if k in before:
                    if res != {"v": before[k]}:
                        return f"setdefault({k}) returns {res}, the mapping holds {before[k]}"
                else:
                    muts[k] = op["d"]
                    if res != {"v": op["d"]}:
                        return f"setdefault({k}, d) returns {res}"
            elif kind == "update":
                if err:
                    return f"update raised {err}"
                muts.update((k, v) for k, v in op["pairs"])
            elif kind == "ext":
                node = {"layers": layers}
                for i in op["path"]:
                    node = [l for l in node["layers"] if l is not None][i]
                store = node["d"] if "d" in node else node["m"]
                hit = [kv for kv in store if kv[0] == op["k"]]
                if op["del"]:
                    store[:] = [kv for kv in store if kv[0] != op["k"]]
                elif hit:
                    hit[0][1] = op["v"]
                else:
                    store.append([op["k"], op["v"]])
                before = _ref_stack(muts, layers)  # the mapping is a live view: it must show the owner's write
            else:
                new = copy.deepcopy([l for l in op["layers"] if l is not None])
                if err:
                    return f"with_layers raised {err}"
                if new:
                    if op["inplace"]:
                        layers = new + layers if op["prepend"] else layers + new
                    else:
                        me = {"name": name, "m": [[k, v] for k, v in muts.items()], "layers": layers}
                        layers = new + [me] if op["prepend"] else [me] + new
                        muts = {}
                    name = op["name"]
            if err and obs["view"] != [[k, v] for k, v in before.items()]:
                return f"{kind} raised {err} but changed the mapping"
        want = _ref_stack(muts, layers)
        keys = [k for k, _ in obs["view"]]
        if len(set(keys)) != len(keys):
            return f"iteration yields duplicate keys {keys}"
        if obs["len"] != len(keys):
            return f"len() = {obs['len']} but iteration yields {len(keys)} keys"
        if any(v == "<KeyError>" for _, v in obs["view"]):
            return "a key produced by iteration cannot be looked up"
        if dict((k, v) for k, v in obs["view"]) != want:
            return f"mapping {obs['view']} is not the top-first merge {want} of its layers"
        if keys != list(want):
            return f"iteration order {keys} is not top-first first-occurrence order {list(want)}"
        if obs["name"] != name:
            return f"name is {obs['name']}, expected {name}"
        me = {"name": name, "m": [[k, v] for k, v in muts.items()], "layers": layers}
        if "named" in obs:
            why = _check_named(me, obs["named"])
            if why:
                return why
    why = _check_named(me, o["named_final"])
    if why:
        return why
    if o["self_snap"] != _strip(me):
        return f"the mapping's private layer / layer stack is {o['self_snap']}, the history gives {_strip(me)}"
    for a, got in zip(c.get("attrs", []), o["attrs"]):
        r = _ref_resolve(me, a) if a else None
        want_a = _strip(r) if r is not None else "AttributeError"
        if got != want_a:
            return f"attribute `{a}` gives {got}, the first layer of that name is {want_a}"
    for p in o["probe"]:
        k = p["k"]
        if p["in"] != (k in want):
            return f"`{k} in m` is {p['in']}"
        if (p["get"] == "<KeyError>") != (k not in want) or (k in want and p["get"] != want[k]):
            return f"m[{k}] = {p['get']}, top-first merge has {want.get(k, '<absent>')}"
        if k in want and p["named"][0] != want[k]:
            return f"get_with_layer_name({k}) returns value {p['named'][0]}, lookup gives {want[k]}"
        if k not in want and p["named"] != [None, None]:
            return f"get_with_layer_name({k}) of a missing key returns {p['named']}"
        if p["layer_name"] != p["named"][1]:
            return f"get_layer_name_for_key({k}) = {p['layer_name']} but get_with_layer_name reports {p['named'][1]}"
    if not o["items_consistent"]:
        return "keys()/items() disagree with iteration and lookup"
    return None


def _check_named(me, named):
    names = [n for n, _ in named]
    if len(set(names)) != len(names) or set(names) != _ref_names(me):
        return f"named_layers has names {names}, the named layers of the stack are {sorted(_ref_names(me))}"
    for n, snap in named:
        if snap != _strip(_ref_resolve(me, n)):
            return f"named_layers[{n}] is {snap}, the first layer of that name is {_strip(_ref_resolve(me, n))}"
    return None


def _deg(t):
    return sum(1 for f in t if f["m"] != "literal")


def _apply_raw(raw, op):
    """the plain Python-list meaning of the operation (no re-sorting); returns error class or None"""
    o = op["o"]
    bad = lambda t: t is None
    try:
        if o == "insert":
            if bad(op["t"]):
                return "FormulaInvalidError"
            raw.insert(op["i"], op["t"])
        elif o == "set":
            if bad(op["t"]):
                return "FormulaInvalidError"
            raw[op["i"]] = op["t"]
        elif o == "del":
            del raw[op["i"]]
        elif o == "delslice":
            del raw[op["a"] : op["b"]]
        elif o == "append":
            if bad(op["t"]):
                return "FormulaInvalidError"
            raw.append(op["t"])
        elif o == "pop":
            raw.pop(op["i"])
    except IndexError:
        return "IndexError"
    return None


def _sort_key(t):
    return (_deg(t), sorted(f["x"] for f in t))


def _norm_term(t):
    return sorted(t, key=lambda f: f["x"])


def _tkey(t):
    """`Term.__eq__`: the sorted factor expressions"""
    return None if t is None else sorted(f["x"] for f in t)


def oracle_sf(c, o):
    mode = c["ordering"]

    def sorted_ok(ts):
        if mode == "sort":
            ks = [_sort_key(t) for t in ts]
            return all(a <= b for a, b in zip(ks, ks[1:])) and all(t == _norm_term(t) for t in ts)
        ds = [_deg(t) for t in ts]
        return all(a <= b for a, b in zip(ds, ds[1:]))

    def stable(new, raw):
        if mode == "sort":  # same terms (with sorted factors); ties are identical terms
            return sorted(map(str, new)) == sorted(str(_norm_term(t)) for t in raw)
        return all([t for t in new if _deg(t) == d] == [t for t in raw if _deg(t) == d] for d in range(0, 8))

    ordered = mode != "none"
    prev = o["init"]
    if ordered and not sorted_ok(prev):
        return f"constructor left the terms unsorted: {prev}"
    if not stable(prev, c["terms"]) or (not ordered and prev != c["terms"]):
        return "constructor did not keep the given terms (in the given order among ties)"
    for op, st in zip(c["ops"], o["trace"]):
        new, kind, err, res = st["terms"], op["o"], st["err"], st.get("res")
        if err == "RuntimeError":
            return f"{kind}: the harness noticed a broken sequence protocol"
        if ordered and not sorted_ok(new):
            return f"after {kind} the terms are {[_sort_key(t) for t in new]} (ordering invariant broken)"
        if err is not None and new != prev and kind not in ("extend", "iadd", "reverse"):
            return f"failed {kind} ({err}) changed the formula"
        if kind in ("insert", "set", "del", "delslice", "append", "pop"):
            raw = list(prev)
            want_err = _apply_raw(raw, op)
            if want_err != err:
                return f"{op} raised {err}, a list raises {want_err}"
            if err is None:
                if ordered and kind in ("insert", "set", "append"):
                    if not stable(new, raw):
                        return f"{kind} did not keep the terms / insertion order among ties: {new} from {raw}"
                elif new != raw:
                    return f"{kind} gives {new}, the sequence operation gives {raw}"
        elif kind in ("extend", "iadd"):
            k = next((i for i, t in enumerate(op["ts"]) if t is None), len(op["ts"]))
            raw = list(prev) + op["ts"][:k]
            if (err is None) != (k == len(op["ts"])):
                return f"{kind} raised {err}"
            if (ordered and not stable(new, raw)) or (not ordered and new != raw):
                return f"{kind} did not append in order: {new} from {raw}"
        elif kind == "setslice":
            if "ts" in op and any(t is None for t in op["ts"]) and err is None:
                return "slice assignment accepted a value that is not a Term"
            if err is None:  # (the code as it is never gets here) a slice assignment that succeeds must be the list one
                raw = list(prev)
                raw[slice(op["a"], op["b"], None if op["c"] == 1 else op["c"])] = op.get("ts", [])
                if (ordered and not stable(new, raw)) or (not ordered and new != raw):
                    return f"slice assignment gives {new}, the sequence operation gives {raw}"
        elif kind == "delslicex":
            if (op["c"] == 0) != (err == "ValueError") or (err not in (None, "ValueError")):
                return f"del f[{op['a']}:{op['b']}:{op['c']}] raised {err}"
            if err is None:
                raw = list(prev)
                del raw[slice(op["a"], op["b"], op["c"])]
                if new != raw:
                    return f"slice deletion gives {new}, the sequence operation gives {raw}"
        elif kind == "clear":
            if err or new != []:
                return f"clear() left {new} / raised {err}"
        elif kind == "remove":
            pos = next((i for i, t in enumerate(prev) if _tkey(t) == _tkey(op["t"])), None)
            if (pos is None) != (err == "ValueError") or err not in (None, "ValueError"):
                return f"remove raised {err}, the term is {'absent' if pos is None else 'at %d' % pos}"
            if pos is not None and new != prev[:pos] + prev[pos + 1 :]:
                return f"remove gives {new}, removing the first equal term gives {prev[:pos] + prev[pos + 1:]}"
        else:  # read-only operations and reverse
            if kind != "reverse" and new != prev:
                return f"{kind} changed the formula"
            if kind == "reverse":
                # a composition of item assignments; only the ordering invariant is demanded
                if not ordered and new != list(reversed(prev)):
                    return "reverse() did not reverse an unordered formula"
            elif kind == "getslice":
                if (op["c"] == 0) != (err == "ValueError") or err not in (None, "ValueError"):
                    return f"f[{op['a']}:{op['b']}:{op['c']}] raised {err}"
                if err is None:
                    raw = list(prev)[slice(op["a"], op["b"], op["c"])]
                    got = res["terms"]
                    if ordered and not sorted_ok(got):
                        return f"the slice {got} of a formula is not ordered"
                    if (ordered and not stable(got, raw)) or (not ordered and got != raw):
                        return f"f[{op['a']}:{op['b']}:{op['c']}] = {got}, the sequence slice is {raw}"
            elif kind == "reversed":
                if err or res["terms"] != list(reversed(prev)):
                    return f"reversed(f) yields {res}"
            elif kind == "eqforeign":
                if err or res != {"b": False}:
                    return f"a formula compares equal to a {op['x']} ({res}/{err})"
            elif kind == "eq":
                want = len(prev) == len(op["other"]) and all(_tkey(a) == _tkey(b) for a, b in zip(prev, op["other"]))
                if err or res != {"b": want}:
                    return f"f == other is {res}/{err}, term by term it is {want}"
            else:
                hits = [i for i, t in enumerate(prev) if _tkey(t) == _tkey(op["t"])]
                if kind == "index":
                    if (not hits) != (err == "ValueError") or (hits and res != {"n": hits[0]}):
                        return f"index gives {res}/{err}, equal terms are at {hits}"
                elif kind == "count":
                    if err or res != {"n": len(hits)}:
                        return f"count gives {res}/{err}, equal terms are at {hits}"
                elif err or res != {"b": bool(hits)}:
                    return f"`t in f` gives {res}/{err}, equal terms are at {hits}"
        prev = new
    if o["final"] != prev:
        return "final state differs from the last observed state"
    for ct, got in zip(c.get("ctors", []), o["ctors"]):
        bad = ct["kw"] or ct["arg"] == "notterms" or (ct["arg"] == "terms" and any(t is None for t in ct["ts"]))
        if bad:
            if got != "FormulaInvalidError":
                return f"SimpleFormula({ct}) must be refused (FormulaInvalidError), got {got}"
            continue
        if isinstance(got, str):
            return f"SimpleFormula({ct}) raised {got}"
        given = ct.get("ts", [])
        if ordered and not sorted_ok(got):
            return f"constructor left the terms unsorted: {got}"
        if not stable(got, given) or (not ordered and got != given):
            return "constructor did not keep the given terms (in the given order among ties)"
    return None


def oracle(c, o):
    if "harness_exception" in o:
        return "harness could not run the implementation: " + o["harness_exception"]
    return {"st": oracle_st, "so": oracle_so, "stf": oracle_stf, "os": oracle_os, "lm": oracle_lm, "sf": oracle_sf}[c["k"]](c, o)


def classify(c, o, why):
    return None


LEVEL_TEXT = (
    "Proof: 55 Lean theorems (Props/C19.lean) about executable models of Structured, StructuredFormula, OrderedSet, "
    "LayeredMapping and SimpleFormula, for ALL trees, ALL layer stacks and ALL operation sequences: _map calls func exactly on the "
    "_flatten list (with truthful contexts) and returns the same dictionary shape (also recurse=False); _simplify is "
    "idempotent and preserves the flatten list, and so does the StructuredFormula constructor; _update/_merge are "
    "key-wise dictionary merges (tuples concatenate; the default merger concatenates lists, unites sets, merges dicts, "
    "refuses mixtures); as a container a Structured delegates plain-key lookup and iteration to a lone root, walks "
    "tuple paths, returns after `s[path] = v` exactly v under that path and leaves every other path as it was, "
    "validates keys, has len = number of iterated items (root first, then insertion order), `in` = key membership, "
    "`==` = dictionary equality, _to_dict = the same tree in plain dicts, and keeps unique non-underscore keys over any "
    "history; a LayeredMapping looks up, iterates and counts as the top-first concatenation of its layers, named_layers "
    "maps each name to the first layer bearing it, and EVERY write (also pop/popitem/clear/setdefault/update) touches "
    "only the private layer while writes by a layer's owner show through (live view); a formula satisfies the invariant of its ordering method (NONE/DEGREE/SORT) after every "
    "sequence of MutableSequence operations (insert, item/slice assignment and deletion, append, extend, +=, pop, "
    "remove, clear, reverse, slicing, searching), the DEGREE sort is stable, deletions are exact; an OrderedSet keeps "
    "distinct values in first-occurrence order through its whole set algebra and compares as a set. The models are tied "
    "to the code by a differential correspondence on every run."
)
LEVEL_NOTE = (
    "Trusted: Lean kernel + propext/Classical.choice/Quot.sound; the hand models validated by correspondence on "
    "generated nestings/stacks/operation sequences (structured.py and layered_mapping.py are executed completely except "
    "__dir__/__repr__/__str__); CPython dict/list/sorted/slice semantics and the collections.abc mixins are modelled, not "
    "verified; _metadata, aliasing of layers/sub-structures, formula specs that need parsing are not modelled. Observed, "
    "not a defect of the property: slice assignment to a SimpleFormula always raises (the value list fails the Term "
    "validation), `s['root']` on a root-only Structured is delegated to the root object."
)
