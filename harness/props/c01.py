"""C01 — Formula strings denote exactly the documented Wilkinson term algebra.

Correspondence stream `c01` (op `both`): real `DefaultFormulaParser(...).get_terms(s)` and
`Formula(s)` against `Model.parseTerms` / `Model.formulaOfString` (tokenizer, token rewriting,
generated operator table, index-based shunting-yard, term algebra, `_simplify`, degree order).
Oracle (impl only): an independent evaluator of the documented semantics on the generator's AST,
documented identities, and equivalence of the specification forms.
"""
from __future__ import annotations

from harness import parser_common as pc

PROPERTY = "C01"
ENGINE = "c01"
REQUIRED_THEOREMS = ['table_is_documented', 'shunt_complete', 'grammar_parses', 'collapse_keeps_other_chars', 'collapse_split', 'collapse_run', 'collapse_single', 'intercept_plain', 'no_intercept_plain', 'denote_mul', 'denote_mul_ops', 'denote_in_eq_div', 'denote_caret_eq_pow', 'denote_div_single', 'denote_pow_two', 'degree_order',
                     'shunt_preserves_tokens', 'shunt_preserves_tokens_default', 'shunt_preserves_tokens_constraint', 'shunt_preserves_leaves',
                     'intercept_every_part', 'intercept_every_rhs_part', 'no_intercept_on_lhs', 'intercept_onesided_general',
                     'intercept_twosided_general', 'no_intercept_configured', 'zero_rewrites',
                     'toplevel_parses', 'twosided_parses', 'multipart_parses', 'onesided_tilde_parses', 'toplevel_rejects',
                     'eval_toplevel', 'eval_onesided', 'eval_toplevel_total']
TRUSTED = [
    "modelled, not verified: CPython's ast.parse/ast.unparse normal form of Python fragments and Python's re classes \\w, \\s (both enter the model as per-case data computed with the live regexes / sanitize_python_code)",
    "the operator table is regenerated from the live DefaultOperatorResolver on every run (Gen/OperatorTable.lean)",
]
ASSUMPTIONS = ["multistage `[ ~ ]` formulas are exercised by the correspondence only (experimental feature)"]
RULE = (
    "grammar-directed random formulas (depth<=3; names, dotted names, backtick names with operator characters, call and brace "
    "fragments, numeric scalings, 0, 1, '.', parentheses, sign runs of length 1-5, all operators) rendered with random whitespace, "
    "x intercept on/off x 8 feature-flag subsets x available-variable lists x parser history (one case in six: a parser built under other flags, used, then reconfigured with set_feature_flags on the parser or its resolver, or used and pickled / deep-copied); plus the same strings after 1-3 random character edits; "
    "plus identity/specification-form cases. non-trivial = at least one binary operator; distinct by canonical JSON"
)

ALPHABET = "ab+-*:/^()~|01 .`{}[]%'\"x,"


def rand_cfg(rng):
    if rng.random() < 0.5:
        return dict(pc.CFG_DEFAULT)
    return dict(intercept=rng.random() < 0.6, twosided=rng.random() < 0.7, multipart=rng.random() < 0.7, multistage=rng.random() < 0.3)


import re

BIG_EXPONENT = re.compile(r"(\*\*|\^)[\s(+-]*\d{2,}")


def mutate(rng, s):
    for _ in range(20):
        t = _mutate(rng, s)
        if not BIG_EXPONENT.search(t):  # `x**111` is valid and takes 2^111 steps: excluded from the stream
            return t
    return s


def _mutate(rng, s):
    for _ in range(rng.randint(1, 3)):
        r = rng.random()
        i = rng.randrange(len(s) + 1)
        if r < 0.35 and s:
            i = min(i, len(s) - 1)
            s = s[:i] + s[i + 1:]
        elif r < 0.7:
            s = s[:i] + rng.choice(ALPHABET) + s[i:]
        elif s:
            i = min(i, len(s) - 1)
            s = s[:i] + rng.choice(ALPHABET) + s[i + 1:]
    return s


def cases(rng, tier):
    n = {"quick": 1500, "thorough": 40000, "search": 1500}[tier]
    for k in range(n):
        dot = rng.random() < 0.15
        f = pc.gen_formula(rng, depth=rng.choice([1, 2, 3]), dot=dot)
        s = pc.render_formula(f, rng)
        cfg = rand_cfg(rng)
        avail = None
        if dot or rng.random() < 0.1:
            avail = rng.sample(pc.NAMES + pc.QUOTED, rng.randint(0, 5))
            if rng.random() < 0.2 and avail:
                avail.append(avail[0])
        try:  # skip formulas whose expansion is huge (powers/products of large sums): they only cost time
            pc.denote(pc.to_lists(f), dict(pc.CFG_DEFAULT, multistage=True), avail or [], ordered=False)
        except pc.TooBig:
            continue
        except Exception:
            pass
        r = rng.random()
        # one case in six parses with a parser that has a history (reconfigured after use, pickled, copied)
        hist = pc.gen_hist(rng) if rng.random() < 0.17 else None
        if r < 0.62:
            yield dict(kind="grammar", ast=pc.to_lists(f), s=s, cfg=cfg, avail=avail, hist=hist)
        elif r < 0.85:
            yield dict(kind="mutated", s=mutate(rng, s), cfg=cfg, avail=avail, hist=hist)
        elif r < 0.93:
            # documented identities on random operands (default parser)
            # operands: plain interaction chains of atoms (no numeric scalings: the identities are documented
            # for terms, and `check_terms` adds scaling-specific rejections that are not part of them)
            plain = lambda: " : ".join(pc.render(pc.gen_atom(rng, 0, {})) for _ in range(rng.choice([1, 1, 2])))
            a, b, c = plain(), plain(), pc.render(pc.gen_atom(rng, 0, {}))
            yield dict(kind="identity", s=f"{a} * {b}", a=a, b=b, c=c, cfg=dict(pc.CFG_DEFAULT), avail=None)
        else:
            # specification forms: string vs list of summands vs lhs=/rhs= keywords
            terms = [pc.render(pc.gen_prod(rng, 1, {})) for _ in range(rng.randint(1, 4))]
            lhs = [pc.render(pc.gen_inter(rng, 0, {}))]
            yield dict(kind="forms", s=" + ".join(terms), summands=terms, lhs=lhs, cfg=dict(pc.CFG_DEFAULT), avail=None)


def describe(c):
    return (c["kind"] + ("/default" if c["cfg"] == pc.CFG_DEFAULT else "/flags") + ("/dot" if c.get("avail") is not None else "")
            + ("/hist:" + c["hist"]["via"] if c.get("hist") else ""))


def nontrivial(c):
    return any(ch in c["s"] for ch in "+-*:/^~|")


def impl(c):
    t = pc.impl_terms(c["s"], c["cfg"], c.get("avail"), c.get("hist"))
    f = pc.impl_formula(c["s"], c["cfg"], c.get("avail"), c.get("hist"))
    out = dict(terms=t, formula=f)
    if c["kind"] == "identity":
        out["ident"] = _identities(c)
    if c["kind"] == "forms":
        out["forms"] = _forms(c)
    return out


def _F(s):
    from formulaic import Formula

    try:
        return pc.canon_val(Formula(s))
    except Exception as e:
        return {"error": pc.exc_class(e)}


def _identities(c):
    a, b, cc = c["a"], c["b"], c["c"]
    pairs = {
        "a*b = a+b+a:b": (f"({a}) * ({b})", f"({a}) + ({b}) + ({a}):({b})"),
        "b %in% a = a/b": (f"({b}) %in% ({a})", f"({a}) / ({b})"),
        "^ = **": (f"({a} + {b})^2", f"({a} + {b})**2"),
        "(a+b+c)**2": (f"({a} + {b} + {cc})**2", f"({a} + {b} + {cc}) + ({a} + {b} + {cc}):({a} + {b} + {cc})"),
    }
    out = {k: [_F(l), _F(r)] for k, (l, r) in pairs.items()}
    # a/b = a + a:b for a single-term parent
    out["a/b = a+a:b"] = [_F(f"{cc} / ({b})"), _F(f"{cc} + {cc}:({b})")]
    return out


def _forms(c):
    from formulaic import Formula

    def run(f):
        try:
            return pc.canon_val(f())
        except Exception as e:
            return {"error": pc.exc_class(e)}

    s = c["s"]
    lhs = c["lhs"][0]
    return {
        "str": run(lambda: Formula(s)),
        "list": run(lambda: Formula(["1"] + c["summands"])),
        "two_str": run(lambda: Formula(f"{lhs} ~ {s}")),
        "two_kw": run(lambda: Formula(lhs=lhs, rhs="1 + " + s)),
        "two_kw_list": run(lambda: Formula(lhs=[lhs], rhs=["1"] + c["summands"])),
    }


def request(c, o):
    return pc.request_for(c["s"], "both", c["cfg"], c.get("avail"))


def agree(c, o, m):
    if "driver_error" in m:
        return "driver: " + m["driver_error"][:300]
    it, if_ = o["terms"], o["formula"]
    if "error" in m:
        if it.get("error") == m["error"] and if_.get("error") == m["error"]:
            return None
        return f"model error {m['error']} vs impl terms={it.get('error', 'ok')} formula={if_.get('error', 'ok')}"
    if it.get("terms") != m.get("terms"):
        return "get_terms differs from the model"
    if if_.get("formula") != m.get("formula"):
        return "Formula(...) differs from the model"
    return None


def _internal(x):
    return isinstance(x, dict) and str(x.get("error", "")).startswith("internal:")


def oracle(c, o):
    if "harness_exception" in o:
        return "harness could not run the implementation: " + o["harness_exception"]
    if c["kind"] == "grammar":
        for ordered, got, key in ((False, o["terms"], "terms"), (True, o["formula"], "formula")):
            try:
                want = pc.denote(c["ast"], c["cfg"], c.get("avail"), ordered=ordered)
            except pc.Reject as r:
                if "error" not in got:
                    return f"documented grammar rejects this formula ({r}) but {key} accepted it as {got[key]}"
                continue
            except (SyntaxError, ValueError, pc.TooBig):
                continue
            if "error" in got:
                return f"formula of the documented grammar rejected with {got['error']} (expected {want})"
            if got[key] != want:
                return f"{key}: got {got[key]}, documented algebra gives {want}"
    if c["kind"] == "identity":
        for name, (l, r) in o["ident"].items():
            if name == "(a+b+c)**2" and isinstance(l, list) and isinstance(r, list):
                # "all interactions up to order 2": a statement about the term set
                key = lambda ts: sorted(tuple(sorted(f[0] for f in t)) for t in ts)
                l, r = key(l), key(r)
            if l != r:
                return f"documented identity {name} fails: {l} vs {r}"
    if c["kind"] == "forms":
        f = o["forms"]
        if any("error" in v for v in f.values() if isinstance(v, dict)):
            if not all(isinstance(v, dict) and "error" in v for v in f.values()):
                # summands that are individually invalid make every form fail; a mix is a disagreement
                if "error" not in (f["str"] if isinstance(f["str"], dict) else {}):
                    return f"specification forms disagree on validity: {f}"
            return None
        keys = [tuple(sorted(x[0] for x in t)) for t in f["list"]] if isinstance(f["list"], list) else []
        if len(set(keys)) != len(keys):
            return None  # the list form keeps repeated terms; the equivalence is stated for duplicate-free sums
        if f["str"] != f["list"]:
            return f"string vs list-of-terms forms differ: {f['str']} vs {f['list']}"
        if not (f["two_str"] == f["two_kw"] == f["two_kw_list"]):
            return f"lhs~rhs string vs lhs=/rhs= forms differ: {f['two_str']} / {f['two_kw']} / {f['two_kw_list']}"
    return None


def classify(c, o, why):
    return None


LEVEL_TEXT = (
    "Proof (partial): Lean theorems about the executable model of the whole parser (tokenizer, token rewriting, sign-run collapsing, index-based shunting-yard, term algebra, _simplify, degree ordering) show for ALL inputs that the live operator table equals the documented one for all 8 flag subsets (re-decided against the regenerated table on every run), that the shunting-yard returns the documented tree for EVERY expression of the documented arithmetic grammar defined by precedence levels (Sum/Prod/Inter/Pow/Atom; unbounded nesting and chain lengths, leading unary sign, right-associative **), that conversely an ACCEPTED token list is never re-ordered, dropped from or duplicated (shunt_preserves_tokens: the in-order reading of the returned tree is the input token list without its brackets, for every operator table without a nullary infix operator, in particular the 8 live tables and the constraint table; shunt_preserves_leaves), that the token-level intercept insertion puts '1 +' in front of every right-hand part and of no left-hand part for formulas with ~ and | separators (and nothing with include_intercept off; a literal 0 becomes the two tokens - 1), that sign-run collapsing keeps all other operator characters and reduces runs by parity, the documented identities (a*b, %in%, ^, a/b, **2) and the stable degree ordering. The top level is proved too: for arbitrary Sums l.., p.. the tokens of 'l | .. ~ p | ..' parse to the documented tree ~(parts(l..), parts(p..)) under the flags that enable it (| chains nest to the right; the flat tuple is the same), are REJECTED with the syntax error when TWOSIDED or MULTIPART is off or a second ~ follows, and the tree evaluates to {lhs: parts, rhs: parts} with each part the term set of its Sum (toplevel_parses, toplevel_rejects, eval_toplevel, eval_toplevel_total). What is NOT proved is the composition into one statement from the STRING (tokenisation of an arbitrary rendered formula) and the '.' wildcard: it is kept as FULL (unproved) in Props/C01.lean and covered by the differential correspondence of the model against the real parser plus an independent reference evaluator of the documented semantics on generated ASTs."
)
LEVEL_NOTE = (
    'Trusted: Lean kernel + propext/Classical.choice/Quot.sound; the hand model of the parser validated on every run by correspondence (get_terms and Formula()) on grammar-directed and mutated strings; CPython ast.unparse normal forms and re character classes enter as data; the operator table is regenerated from the live resolver.'
)
