"""C01 — Formula strings denote exactly the documented Wilkinson term algebra.

Correspondence stream `c01`, four kinds of requests to the Lean engine:
* op `all` (kinds grammar / mutated / edge): EVERY stage of the real parser — `get_tokens`, `get_ast`, `get_terms`
  (through `FormulaParser.parse(target=enum|name|int)` or the shortcuts) and `Formula(<str>)` — against the model
  (`Model.getTokens`, `tokensToAst`, `parseTerms`, `formulaOfString`): token list, tree, terms, ordered formula.
* op `spec`: every SPECIFICATION FORM — `Formula.from_spec`, `Formula(root, **kw)`, `StructuredFormula(...)`,
  `SimpleFormula(...)` on strings, lists / sets / OrderedSets of strings and Terms, dicts, tuples, plain `Structured`s,
  existing Formulas, invalid objects; orderings none / degree / sort / invalid; parsers given or not; result optionally
  pickled / deep-copied — against `Model/FromSpec.lean`.
* op `base`: the base class `FormulaParser` with a `DefaultOperatorResolver` (lazy token pipeline) — `Model/BaseParser.lean`.
* op `both` (kinds identity / forms): terms and formula of the operands of the documented identities.
Oracle (impl only): an independent evaluator of the documented semantics on the generator's AST, documented identities,
equivalence of the specification forms, the ordering methods, rejection of strings outside the grammar.
"""
from __future__ import annotations

from harness import parser_common as pc

PROPERTY = "C01"
ENGINE = "c01"
REQUIRED_THEOREMS = ['table_is_documented', 'shunt_complete', 'grammar_parses', 'collapse_keeps_other_chars', 'collapse_split', 'collapse_run', 'collapse_single', 'intercept_plain', 'no_intercept_plain', 'denote_mul', 'denote_mul_ops', 'denote_in_eq_div', 'denote_caret_eq_pow', 'denote_div_single', 'denote_pow_two', 'degree_order',
                     'shunt_preserves_tokens', 'shunt_preserves_tokens_default', 'shunt_preserves_tokens_constraint', 'shunt_preserves_leaves',
                     'intercept_every_part', 'intercept_every_rhs_part', 'no_intercept_on_lhs', 'intercept_onesided_general',
                     'intercept_twosided_general', 'no_intercept_configured', 'zero_rewrites',
                     'toplevel_parses', 'twosided_parses', 'multipart_parses', 'onesided_tilde_parses', 'toplevel_rejects',
                     'eval_toplevel', 'eval_onesided', 'eval_toplevel_total',
                     # evaluation = denotation, parse = denotation (Spec/WilkinsonDenote.lean)
                     'eval_eq_denote', 'parse_eq_denote_partial', 'parse_eq_denote_tokens_partial', 'formula_eq_denote_partial',
                     'intercept_is_fold', 'spans_irrelevant',
                     # from the string: the tokenizer on a formula written with single spaces
                     'tokenize_rendered', 'parse_eq_denote_rendered_partial', 'parse_eq_denote_rendered_sum_partial',
                     # sign runs, the literal 0 and the wildcard `.` inside the grammar; quoted / Python atoms as leaves
                     'sign_run_resolves', 'parse_eq_denote_runs_tokens_partial', 'runs_denote_as_normal_form',
                     'parse_eq_denote_runs_partial', 'parse_eq_denote_rendered_runs_partial', 'wildcard_denotes_unused_variables',
                     'rewriting_ignores_merged_separators', 'parse_eq_denote_respaced_partial',
                     # term algebra
                     'union_idempotent', 'union_associative', 'diff_is_set_difference', 'interaction_distributes',
                     'power_is_iterated_interaction', 'product_respects_identity',
                     # specification forms (Model/FromSpec.lean)
                     'forms_onesided', 'forms_twosided', 'forms_multipart_two', 'fromSpec_fuel_sufficient', 'string_eq_keywords_partial', 'ordering_methods']
TRUSTED = [
    "modelled, not verified: CPython's ast.parse/ast.unparse normal form of Python fragments and Python's re classes \\w, \\s (both enter the model as per-case data computed with the live regexes / sanitize_python_code)",
    "the operator table is regenerated from the live DefaultOperatorResolver on every run (Gen/OperatorTable.lean); the configuration of DEFAULT_PARSER / DEFAULT_NESTED_PARSER, the OrderingMethod members, the default orderings of the four entry points and the FormulaParser.Target members are regenerated from the live modules (Gen/FormulaDefaults.lean)",
    "CPython's iteration order of a `set` specification (hash order) enters the model as data: the harness sends the elements of every set / OrderedSet in the order the real object yields them",
    "pickle / copy.deepcopy of a formula are exercised on the implementation only (oracle: the formula is unchanged); the model has no notion of them",
]
ASSUMPTIONS = ["multistage `[ ~ ]` formulas are exercised by the correspondence only (experimental feature)",
               "parse = denotation is proved from the token sequence (as written, and as the lexer delivers it: a separator and the signs after it are one token), and from the STRING for formulas written with one space after every written token — names, numbers, 0, '.', sign runs, back-quoted names, brace fragments, calls (tokenize_rendered, parse_eq_denote_rendered_partial, parse_eq_denote_rendered_runs_partial); and for every re-spacing of such a string at the gaps of the formula — after operators, brackets and finished tokens, between a word and a following operator / ')' / %in% / the end — as a relation between strings (parse_eq_denote_respaced_partial); for other spellings it is proved GIVEN that the string tokenises to the token sequence of the formula (checked on every generated string by the `get_tokens` correspondence)",
               "a sign directly after a binary operator that is neither a sign nor a separator (`a * -b`, `a:--b`, lexed as one token `*-`) is outside the grammar of the parse = denotation theorems (covered by the character-level theorems C01.2 and by the correspondence + reference evaluator); the value of '.' is the model's (available variables minus the variables of the written left-hand side; data variables of Python fragments enter as data)"]
RULE = (
    "grammar-directed random formulas (depth<=3; names, dotted names, backtick names with operator characters, call and brace "
    "fragments, numeric scalings, 0, 1, '.', parentheses, sign runs of length 1-5, all operators) rendered with random whitespace, "
    "x intercept on/off x 8 feature-flag subsets x available-variable lists (passed as the context key or as a LayeredMapping data layer) "
    "x parser history (one case in six: a parser built under other flags, used, then reconfigured with set_feature_flags on the parser or its resolver, a resolver built from a set of flag names, or used and pickled / deep-copied) "
    "x the way a stage is requested (parse(target=enum|name|int) or get_tokens/get_ast/get_terms); plus the same strings after 1-3 random character edits; "
    "plus 30 templates for rarely reached branches (string literals, non-integer exponents, re-scaled repeats, multistage nestings, '.' with and without context); "
    "plus the base-class FormulaParser; plus identity/specification-form cases; plus random SPECIFICATION trees (depth<=3: strings, lists/sets/OrderedSets of strings and Terms, "
    "dicts, tuples, Structured, existing Formulas, invalid objects) through from_spec / Formula(...) / StructuredFormula(...) / SimpleFormula(...) x orderings none/degree/sort/invalid x parsers given or not x pickle/deepcopy. "
    "non-trivial = at least one binary operator; distinct by canonical JSON"
)

ALPHABET = "ab+-*:/^()~|01 .`{}[]%'\"x,"


def rand_cfg(rng):
    if rng.random() < 0.5:
        return dict(pc.CFG_DEFAULT)
    return dict(intercept=rng.random() < 0.6, twosided=rng.random() < 0.7, multipart=rng.random() < 0.7, multistage=rng.random() < 0.3)


# ----------------------------------------------------------------------------- rarely reached branches of the parser

TARGET_FORMS = ["enum", "name", "int", "short"]

# (template, what the documented grammar says: "reject" = must be a FormulaParsingError, None = correspondence only)
EDGE_TEMPLATES = [
    ("{a}:'s'", "reject"), ("\"s t\":{a} + {b}", "reject"), ("'s'", "reject"), ("{a} + 's'", "reject"), ("2:'s':{a}", "reject"),
    ("{a} ** 1..2", "reject"), ("{a} ** 01", "reject"), ("{a} ^ 'x'", "reject"), ("{a}**2.0", "reject"), ("{a} ** {b}", "reject"),
    ("{a} ** 0", "reject"), ("({a} + {b}) ** (1)", None), ("{a} ** +2", None), ("{a}**1e2", "reject"), ("{a} ** 1_0", None),
    ("[[{a} ~ {b}] ~ {c}]", None), ("[{a} ~ {b}] + {c}", None), ("{y} ~ [{a} ~ {b} + {c}]", None), ("[{a} ~ {b}] ~ {c}", None),
    (". + {a}", None), ("{y} ~ .", None), ("{y} ~ . - {a}", None), (".", None), ("{y} + {a} ~ . : {b}", None), (". ~ {a}", None),
    ("{a} : 2 + {a} : 3", "reject"), ("2 : {a} + {a}", "reject"), ("{a}:{b} + {b}:{a}", None), ("0 + {a} | 0", None), ("- 1 - {a}", None),
]


BASE_BAD = ["a ) + {1 +}", "{1 +} + `a", "a + ) `b", "{a b} )", "a b", "a ~ b ~ c `", "( a", "a + {x y} + (", "", "2", "a + 'x'",
            "a:2 + a:3", "a | b", "~ a", "y ~ a + {b c", "a ** b", "a ** 2 +"]


def impl_base(c):
    from formulaic.parser import DefaultOperatorResolver
    from formulaic.parser.types import FormulaParser

    flags = {k for k in ("twosided", "multipart", "multistage") if c["cfg"][k]}
    out = {}
    for name, canon in (("ast", _canon_ast), ("terms", pc.canon_val)):
        try:
            p = FormulaParser(operator_resolver=DefaultOperatorResolver(feature_flags=flags))
            out[name] = canon(getattr(p, "get_" + name)(c["s"]))
        except Exception as e:
            out[name] = {"error": pc.exc_class(e)}
    return out


def gen_hist(rng):
    h = pc.gen_hist(rng)
    if rng.random() < 0.25:  # a resolver constructed with a SET of flag names (DefaultOperatorResolver.__post_init__)
        h = dict(h, via="resolver_set")
    return h


def edge_case(rng, cfg, avail, extra):
    tpl, expect = rng.choice(EDGE_TEMPLATES)
    at = lambda: pc.render(pc.gen_atom(rng, 0, {}))
    s = tpl.format(a=at(), b=at(), c=at(), y=at())
    if "[" in tpl:
        cfg = dict(cfg, multistage=rng.random() < 0.8)
    if "." in tpl and avail is None and rng.random() < 0.6:
        avail = rng.sample(pc.NAMES + pc.QUOTED, rng.randint(0, 5))
    return dict(kind="edge", s=s, cfg=cfg, avail=avail, hist=None, expect=expect, tpl=tpl, **extra)


def _make_parser(c):
    h = c.get("hist")
    if h and h["via"] == "resolver_set":
        from formulaic.parser import DefaultFormulaParser, DefaultOperatorResolver

        flags = {k for k in ("twosided", "multipart", "multistage") if c["cfg"][k]}
        return DefaultFormulaParser(operator_resolver=DefaultOperatorResolver(feature_flags=set(flags)),
                                    include_intercept=c["cfg"]["intercept"], feature_flags=set(flags))
    return pc.make_parser_hist(c["cfg"], h)


def _context(c):
    if c.get("avail") is None:
        return {}
    if c.get("ctxmode") == "layer":
        from formulaic.utils.layered_mapping import LayeredMapping

        return LayeredMapping(LayeredMapping({v: 0 for v in c["avail"]}, name="data"))
    return {"__formulaic_variables_available__": c["avail"]}


def _canon_ast(a):
    from formulaic.parser.types import Token

    if a is None:
        return None
    if isinstance(a, Token):
        return ["tok", a.token, a.kind.value if a.kind else "none"]
    return ["op", a.operator.symbol, a.operator.arity, a.operator.fixity.value, [_canon_ast(x) for x in a.args]]


def impl_stages(c):
    """tokens / AST / terms through FormulaParser.parse(target=…) in the form the case asks for, and Formula(<str>)"""
    from formulaic import Formula
    from formulaic.parser.types import FormulaParser

    T = FormulaParser.Target
    form = c.get("tform", "short")
    out = {}

    def stage(name, target, short, canon):
        try:
            p = _make_parser(c)
            ctx = _context(c)
            if form == "short":
                r = getattr(p, short)(c["s"], context=ctx)
            else:
                t = {"enum": target, "name": target.name.lower(), "int": int(target)}[form]
                r = p.parse(c["s"], target=t, context=ctx)
            out[name] = canon(r)
        except Exception as e:
            out[name] = {"error": pc.exc_class(e)}

    stage("tokens", T.TOKENS, "get_tokens", lambda r: [[t.token, t.kind.value if t.kind else "none"] for t in r])
    stage("ast", T.AST, "get_ast", _canon_ast)
    stage("terms", T.TERMS, "get_terms", pc.canon_val)
    try:
        p = _make_parser(c)
        out["formula"] = pc.canon_val(Formula(c["s"], _parser=p, _nested_parser=p, _context=_context(c)))
    except Exception as e:
        out["formula"] = {"error": pc.exc_class(e)}
    return out


import re

BIG_EXPONENT = re.compile(r"(\*\*|\^)[\s(+-]*\d{2,}")


def mutate(rng, s):
    for _ in range(20):
        t = _mutate(rng, s)
        if not BIG_EXPONENT.search(t):  # `x**111` is valid and takes 2^111 steps: excluded from the stream
            return t
    return s


def _mutate(rng, s):
    for _ in range(rng.randint(1, 3)):
        r = rng.random()
        i = rng.randrange(len(s) + 1)
        if r < 0.35 and s:
            i = min(i, len(s) - 1)
            s = s[:i] + s[i + 1:]
        elif r < 0.7:
            s = s[:i] + rng.choice(ALPHABET) + s[i:]
        elif s:
            i = min(i, len(s) - 1)
            s = s[:i] + rng.choice(ALPHABET) + s[i + 1:]
    return s


def cases(rng, tier):
    n = {"quick": 1500, "thorough": 40000, "search": 1500}[tier]
    yield from spec_cases(rng, {"quick": 700, "thorough": 15000, "search": 700}[tier])
    for k in range(n):
        dot = rng.random() < 0.15
        f = pc.gen_formula(rng, depth=rng.choice([1, 2, 3]), dot=dot)
        s = pc.render_formula(f, rng)
        cfg = rand_cfg(rng)
        avail = None
        if dot or rng.random() < 0.1:
            avail = rng.sample(pc.NAMES + pc.QUOTED, rng.randint(0, 5))
            if rng.random() < 0.2 and avail:
                avail.append(avail[0])
        try:  # skip formulas whose expansion is huge (powers/products of large sums): they only cost time
            pc.denote(pc.to_lists(f), dict(pc.CFG_DEFAULT, multistage=True), avail or [], ordered=False)
        except pc.TooBig:
            continue
        except Exception:
            pass
        r = rng.random()
        # one case in six parses with a parser that has a history (reconfigured after use, pickled, copied)
        hist = gen_hist(rng) if rng.random() < 0.17 else None
        # how the intermediate stages are asked for (parse(target=enum|name|int) or the get_* shortcuts) and how
        # the available variables reach the `.` operator (context key or a LayeredMapping with a `data` layer)
        extra = dict(tform=rng.choice(TARGET_FORMS), ctxmode=rng.choice(["key", "key", "layer"]))
        if r < 0.58:
            yield dict(kind="grammar", ast=pc.to_lists(f), s=s, cfg=cfg, avail=avail, hist=hist, **extra)
        elif r < 0.80:
            yield dict(kind="mutated", s=mutate(rng, s), cfg=cfg, avail=avail, hist=hist, **extra)
        elif r < 0.83:
            yield edge_case(rng, cfg, avail, extra)
        elif r < 0.85:
            # the base class FormulaParser with a DefaultOperatorResolver (lazy token pipeline, no intercept, no term check)
            bs = rng.choice(BASE_BAD) if rng.random() < 0.3 else (mutate(rng, s) if rng.random() < 0.3 else s)
            if not dot and not re.search(r"(^|[^\w.])\.($|[^\w.])", bs):
                yield dict(kind="base", s=bs, cfg=dict(cfg, intercept=False), avail=None, **extra)
        elif r < 0.93:
            # documented identities on random operands (default parser)
            # operands: plain interaction chains of atoms (no numeric scalings: the identities are documented
            # for terms, and `check_terms` adds scaling-specific rejections that are not part of them)
            plain = lambda: " : ".join(pc.render(pc.gen_atom(rng, 0, {})) for _ in range(rng.choice([1, 1, 2])))
            a, b, c = plain(), plain(), pc.render(pc.gen_atom(rng, 0, {}))
            yield dict(kind="identity", s=f"{a} * {b}", a=a, b=b, c=c, cfg=dict(pc.CFG_DEFAULT), avail=None)
        else:
            # specification forms: string vs list of summands vs lhs=/rhs= keywords
            terms = [pc.render(pc.gen_prod(rng, 1, {})) for _ in range(rng.randint(1, 4))]
            lhs = [pc.render(pc.gen_inter(rng, 0, {}))]
            yield dict(kind="forms", s=" + ".join(terms), summands=terms, lhs=lhs, cfg=dict(pc.CFG_DEFAULT), avail=None)

MISSING_ORD = object()

# ----------------------------------------------------------------------------- specification forms (stream `spec`)
#
# Every way of handing a formula to the library: Formula.from_spec(spec), Formula(root, **structure),
# StructuredFormula(root, **structure), SimpleFormula(terms) with spec a string, a list / set / OrderedSet of
# strings and Terms, a dict, a tuple, a plain Structured, an existing Formula, or something else; orderings
# none / degree / sort / invalid; parser and nested parser given or not. Model: Model/FromSpec.lean (op `spec`).

ORDERINGS = ["none", "degree", "sort"]
BAD_STRINGS = ["(", "a +", "a b", "y ~ x ~ z", "a:'s'", "2", "a ** b", "`a", "a | b ~ c ~ d"]
KEYS = ["lhs", "rhs", "a", "b", "root", "x y", "deps", "Z"]


def gen_term_json(rng):
    k = rng.choice([1, 1, 2, 2, 3])
    fs = []
    for _ in range(k):
        r = rng.random()
        if r < 0.12:
            fs.append([rng.choice(["1", "2", "0.5"]), "literal"])
        elif r < 0.3:
            fs.append([rng.choice(["f(x)", "np.log(a)", "C(b)", "a + 1"]), "python"])
        else:
            fs.append([rng.choice(pc.NAMES + pc.QUOTED[:4]), "lookup"])
    return fs


def gen_term_string(rng):
    r = rng.random()
    if r < 0.06:
        return rng.choice(BAD_STRINGS + ["", " ", "a | b", "y ~ x", "0", "1", "a + b"])
    if r < 0.2:
        return pc.render(pc.gen_sum(rng, 1, {}), rng if rng.random() < 0.5 else None)
    return pc.render(pc.gen_prod(rng, 1, {}), rng if rng.random() < 0.3 else None)


def gen_formula_string(rng, safe=False):
    if not safe and rng.random() < 0.08:
        return rng.choice(BAD_STRINGS + ["", "  "])
    for _ in range(20):
        f = pc.gen_formula(rng, depth=rng.choice([1, 1, 2]), dot=False)
        try:
            pc.denote(pc.to_lists(f), dict(pc.CFG_DEFAULT, multistage=True), [], ordered=False)
        except pc.TooBig:
            continue
        except pc.Reject:
            if safe:
                continue
        except Exception:
            if safe:
                continue
        s = pc.render_formula(f, None if safe or rng.random() < 0.5 else rng)
        if not BIG_EXPONENT.search(s):
            return s
    return "a + b"


def _small_sum(rng):
    for _ in range(20):
        sm = pc.gen_sum(rng, 1, {})
        try:
            pc.denote(("one", [pc.to_lists(sm)]), dict(pc.CFG_DEFAULT), [], ordered=False)
        except pc.TooBig:
            continue
        except Exception:
            pass
        s = pc.render(sm, rng if rng.random() < 0.5 else None)
        if not BIG_EXPONENT.search(s):
            return s
    return "a + b"


def gen_items(rng, safe=False):
    c = rng.choice(["list", "list", "list", "set", "oset"])
    n = rng.choice([0, 1, 2, 2, 3, 4])
    xs, seen = [], set()
    for _ in range(n):
        r = rng.random()
        if r < 0.5:
            x = {"s": "a:b" if safe else gen_term_string(rng)}
            key = ("s", x["s"])
        elif r < 0.95 or safe:
            x = {"t": gen_term_json(rng)}
            key = ("t", tuple(sorted(set(f[0] for f in x["t"]))))
        else:
            x = {"bad": rng.choice([3, None])}
            key = ("bad", x["bad"])
        if c != "list" and (key in seen or "bad" in x):  # sets: distinct hashable elements
            continue
        seen.add(key)
        xs.append(x)
    return {"k": "items", "c": c, "xs": xs}


def gen_spec(rng, depth, safe=False):
    r = rng.random()
    if depth <= 0 or r < 0.38:
        if r < 0.2 or depth <= 0 and r < 0.5:
            return {"k": "str", "s": gen_formula_string(rng, safe)}
        return gen_items(rng, safe)
    if r < 0.58:
        keys = rng.sample(KEYS, rng.randint(0, 3))
        if not safe and rng.random() < 0.04:
            keys.append(rng.choice(["_x", "_parser", "_ordering"]))
        return {"k": "dict", "fs": [[k, gen_spec(rng, depth - 1, safe)] for k in keys]}
    if r < 0.72:
        return {"k": "tuple", "xs": [gen_spec(rng, depth - 1, safe) for _ in range(rng.randint(0, 3))]}
    if r < 0.84:
        keys = rng.sample([k for k in KEYS if k.isidentifier()], rng.randint(0, 3))
        fs = [[k, gen_spec(rng, depth - 1, safe)] for k in keys]
        rng.shuffle(fs)
        return {"k": "structured", "fs": fs}
    if r < 0.96:
        return {"k": "built", "root": gen_spec(rng, depth - 1, True), "ord": rng.choice(ORDERINGS)}
    if safe:
        return {"k": "str", "s": "a"}
    return {"k": "other", "v": rng.choice([3, None, 1.5])}


def gen_ord(rng):
    r = rng.random()
    if r < 0.35:
        return None
    if r < 0.95:
        return rng.choice(ORDERINGS)
    return rng.choice(["foo", "DEGREE", ""])


def spec_cases(rng, n):
    for _ in range(n):
        r = rng.random()
        c = dict(kind="spec", cfg=dict(pc.CFG_DEFAULT), ord=gen_ord(rng), ord_enum=rng.random() < 0.3,
                 parser=rand_cfg(rng) if rng.random() < 0.3 else None,
                 nested=rand_cfg(rng) if rng.random() < 0.3 else None, avail=None, root=None, kw=[])
        if r < 0.06:
            # a tuple of one-part formulas: must be the multi-part formula `s1 | s2 | ...`
            c["entry"] = rng.choice(["from_spec", "formula"])
            c["parser"] = c["nested"] = None
            c["root"] = {"k": "tuple", "xs": [{"k": "str", "s": _small_sum(rng)} for _ in range(rng.randint(2, 3))]}
        elif r < 0.5:
            c["entry"] = "from_spec"
            c["root"] = gen_spec(rng, rng.choice([0, 1, 2, 3]))
        elif r < 0.75:
            c["entry"] = "formula"
            if rng.random() < 0.8:
                c["root"] = gen_spec(rng, rng.choice([0, 1, 2]))
            if rng.random() < 0.6:
                c["kw"] = [[k, gen_spec(rng, rng.choice([0, 1, 2]))] for k in rng.sample([k for k in KEYS if k != "root" and k.isidentifier()], rng.randint(1, 3))]
        elif r < 0.9:
            c["entry"] = "structured"
            if rng.random() < 0.6:
                c["root"] = gen_spec(rng, rng.choice([0, 1, 2]))
            c["kw"] = [[k, gen_spec(rng, rng.choice([0, 1, 2]))] for k in rng.sample([k for k in KEYS if k != "root" and k.isidentifier()], rng.randint(0, 3))]
        else:
            c["entry"] = "simple"
            c["sroot"] = rng.choice(["missing", "str", "notiter", "items", "items", "items", "items"])
            c["xs"] = gen_items(rng)["xs"] if c["sroot"] == "items" else []
            c["has_structure"] = rng.random() < 0.1
        c["s"] = " ; ".join(_spec_strings(c))
        # the formula may be pickled / deep-copied before it is looked at (StructuredFormula.__getstate__)
        c["post"] = rng.choice(["none", "none", "pickle", "deepcopy"])
        yield c


def _walk_specs(c):
    todo = [c.get("root")] + [v for _, v in c.get("kw", [])]
    while todo:
        x = todo.pop()
        if not isinstance(x, dict):
            continue
        yield x
        if x["k"] in ("dict", "structured"):
            todo += [v for _, v in x["fs"]]
        elif x["k"] == "tuple":
            todo += x["xs"]
        elif x["k"] == "built":
            todo.append(x["root"])


def _spec_strings(c):
    out = []
    for x in _walk_specs(c):
        if x["k"] == "str":
            out.append(x["s"])
        elif x["k"] == "items":
            out += [i["s"] for i in x["xs"] if "s" in i]
    out += [i["s"] for i in c.get("xs", []) if "s" in i]
    return sorted(set(out))


def _py_term(fs):
    from formulaic.parser.types import Factor, Term

    return Term([Factor(e, eval_method=m) for e, m in fs])


def _py_item(i):
    if "s" in i:
        return i["s"]
    if "t" in i:
        return _py_term(i["t"])
    return i["bad"]


def _py_spec(x, orders, as_terms=False):
    """the Python object of a spec node; `orders` collects the iteration order of every set (as data for the model)"""
    from formulaic import Formula
    from formulaic.parser.types import OrderedSet
    from formulaic.utils.structured import Structured

    k = x["k"]
    if k == "str":
        return x["s"]
    if k == "items":
        vals = [_py_item(i) for i in x["xs"]]
        if as_terms:  # alternative form: every string element replaced by the Terms it denotes (nested default parser)
            from formulaic.formula import DEFAULT_NESTED_PARSER

            vals = [t for v in vals for t in (list(DEFAULT_NESTED_PARSER.get_terms(v)) if isinstance(v, str) else [v])]
        if x["c"] == "list":
            return vals
        st = OrderedSet(vals) if x["c"] == "oset" else set(vals)
        # the elements that survive (a string and a Term that compare equal collapse) in iteration order
        orders[id(x)] = [next(j for j, w in enumerate(vals) if w is v) for v in st] if not as_terms else None
        return st
    if k == "dict":
        return {kk: _py_spec(v, orders, as_terms) for kk, v in x["fs"]}
    if k == "tuple":
        return tuple(_py_spec(v, orders, as_terms) for v in x["xs"])
    if k == "structured":
        return Structured(**{kk: _py_spec(v, orders, as_terms) for kk, v in x["fs"]})
    if k == "built":
        return Formula.from_spec(_py_spec(x["root"], orders, as_terms), ordering=x["ord"])
    return x["v"]


def canon_ordered(v):
    """like pc.canon_val, but a structure is the LIST of its (key, value) pairs in `_structure` order"""
    from formulaic.utils.structured import Structured

    if isinstance(v, Structured):
        return {"s": [[k, canon_ordered(x)] for k, x in v._structure.items()]}
    if isinstance(v, tuple):
        return {"t": [canon_ordered(x) for x in v]}
    return [pc.canon_term(t) for t in v]


def _call_spec(c, ord_override=MISSING_ORD, as_terms=False, entry=None):
    from formulaic import Formula
    from formulaic.formula import OrderingMethod, SimpleFormula, StructuredFormula

    orders = {}
    ctx = {"__formulaic_variables_available__": c["avail"]} if c.get("avail") is not None else None
    o = c["ord"] if ord_override is MISSING_ORD else ord_override
    kwo = {}
    if o is not None:
        kwo = dict(ordering=OrderingMethod(o) if c.get("ord_enum") and o in ORDERINGS else o)
    parser = pc.make_parser(c["parser"]) if c.get("parser") else None
    nested = pc.make_parser(c["nested"]) if c.get("nested") else None
    entry = entry or c["entry"]
    try:
        root = _py_spec(c["root"], orders, as_terms) if c.get("root") is not None else None
        kw = {k: _py_spec(v, orders, as_terms) for k, v in c.get("kw", [])}
        uo = {"_" + k: v for k, v in kwo.items()}
        if entry == "from_spec":
            r = Formula.from_spec(root, parser=parser, nested_parser=nested, context=ctx, **kwo)
        elif entry in ("formula", "structured"):
            cls = Formula if entry == "formula" else StructuredFormula
            args = [root] if c.get("root") is not None else []
            r = cls(*args, _parser=parser, _nested_parser=nested, _context=ctx, **uo, **kw)
        else:
            sroot = c["sroot"]
            args = {"missing": [], "str": ["a + b"], "notiter": [3], "items": [[_py_item(i) for i in c["xs"]]]}[sroot]
            r = SimpleFormula(*args, **uo, **({"z": "a"} if c.get("has_structure") else {}))
        if c.get("post") == "pickle":
            import pickle

            r = pickle.loads(pickle.dumps(r))
        elif c.get("post") == "deepcopy":
            import copy

            r = copy.deepcopy(r)
        return {"formula": canon_ordered(r)}, orders
    except Exception as e:
        return {"error": pc.exc_class(e)}, orders


def impl_spec(c):
    out, orders = _call_spec(c)
    # iteration order of the sets in the specification (CPython hashing: enters the model as data)
    so = {}
    for n, x in enumerate(x for x in _walk_specs(c) if x["k"] == "items"):
        if x["c"] != "list" and id(x) in orders:
            so[str(n)] = orders[id(x)]
    out["set_orders"] = so
    alt = {}
    if c.get("post", "none") != "none":
        alt["nopost"] = _call_spec(dict(c, post="none"))[0]
    if c["ord"] in ("degree", "sort"):
        alt["none"] = _call_spec(c, ord_override="none")[0]
    # (not for sets: replacing elements changes CPython's iteration order of the set)
    if (any(x["k"] == "items" and any("s" in i for i in x["xs"]) for x in _walk_specs(c)) and not c.get("nested") and not c.get("parser")
            and not any(x["k"] == "items" and x["c"] != "list" for x in _walk_specs(c))):
        alt["terms"] = _call_spec(c, as_terms=True)[0]
    if c["entry"] == "from_spec" and c["root"]["k"] == "dict" and any(k != "root" for k, _ in c["root"]["fs"]):
        c2 = dict(c, entry="formula", root=next((v for k, v in c["root"]["fs"] if k == "root"), None),
                  kw=[[k, v] for k, v in c["root"]["fs"] if k != "root"])
        if all(k.isidentifier() and not k.startswith("_") for k, _ in c2["kw"]):
            alt["kw"] = _call_spec(c2)[0]
    # a tuple of one-part strings is the multi-part formula `s1 | s2 | ...` (nested structure vs `|`)
    r = c.get("root")
    if (c["entry"] in ("from_spec", "formula") and not c.get("kw") and r and r["k"] == "tuple" and len(r["xs"]) >= 2
            and all(x["k"] == "str" and x["s"].strip() and "~" not in x["s"] and "|" not in x["s"] for x in r["xs"])
            and not c.get("parser") and not c.get("nested")):
        from formulaic import Formula

        try:
            singles = [Formula(x["s"]) for x in r["xs"]]
            if all(type(f).__name__ == "SimpleFormula" for f in singles):
                alt["bar"] = _call_spec(dict(c, root={"k": "str", "s": " | ".join(x["s"] for x in r["xs"])}))[0]
        except Exception:
            pass
    out["alt"] = alt
    return out


def request_spec(c, o):
    strs = _spec_strings(c)
    idx = {s: i for i, s in enumerate(strs)}
    so = (o or {}).get("set_orders", {}) if isinstance(o, dict) else {}
    counter = [0]

    def items_json(xs, order=None):
        js = [{"s": idx[i["s"]]} if "s" in i else ({"t": i["t"]} if "t" in i else {"bad": 1}) for i in xs]
        return [js[j] for j in order] if order is not None else js

    # sets are numbered in the traversal order of _walk_specs
    numbering = {id(x): n for n, x in enumerate(x for x in _walk_specs(c) if x["k"] == "items")}

    def conv(x):
        k = x["k"]
        if k == "str":
            return {"k": "str", "i": idx[x["s"]]}
        if k == "items":
            order = so.get(str(numbering[id(x)])) if x["c"] != "list" else None
            return {"k": "items", "xs": items_json(x["xs"], order)}
        if k == "dict":
            return {"k": k, "fs": [[kk, conv(v)] for kk, v in x["fs"]]}
        if k == "structured":  # `Structured(**fs)` stores the root last: the model takes the keys in `_structure` order
            fs = [p for p in x["fs"] if p[0] != "root"] + [p for p in x["fs"] if p[0] == "root"]
            return {"k": k, "fs": [[kk, conv(v)] for kk, v in fs]}
        if k == "tuple":
            return {"k": "tuple", "xs": [conv(v) for v in x["xs"]]}
        if k == "built":
            return {"k": "built", "root": conv(x["root"]), "ord": x["ord"]}
        return {"k": "other"}

    table = []
    for s in strs:
        w, sp_ = pc.char_flags(s)
        norm, pyvars = pc.py_env(s)
        table.append(dict(s=s, w=w, sp=sp_, norm=norm, pyvars=pyvars))
    req = dict(op="spec", entry=c["entry"], ord=c["ord"], strs=table, avail=c.get("avail"),
               kw=[[k, conv(v)] for k, v in c.get("kw", [])])
    if c.get("root") is not None:
        req["root"] = conv(c["root"])
    if c.get("parser"):
        req["parser"] = c["parser"]
    if c.get("nested"):
        req["nested"] = c["nested"]
    if c["entry"] == "simple":
        req.update(sroot={"notiter": "notiter"}.get(c["sroot"], c["sroot"]), xs=items_json(c["xs"]), has_structure=c["has_structure"])
    return req


def _leaves(v):
    if isinstance(v, list):
        yield v
    elif isinstance(v, dict) and "s" in v:
        for _, x in v["s"]:
            yield from _leaves(x)
    elif isinstance(v, dict) and "t" in v:
        for x in v["t"]:
            yield from _leaves(x)


def _shape(v):
    if isinstance(v, list):
        return "L"
    if isinstance(v, dict) and "s" in v:
        return {"s": [[k, _shape(x)] for k, x in v["s"]]}
    if isinstance(v, dict) and "t" in v:
        return {"t": [_shape(x) for x in v["t"]]}
    return v


def _deg(t):
    return sum(1 for f in t if f[1] != "literal")


def oracle_spec(c, o):
    if "error" in o:
        return None
    got, alt = o["formula"], o.get("alt", {})
    # `_ordering`: the same specification under "none" gives the same structure with the same terms per leaf;
    # "degree" is the stable sort of it by degree, "sort" orders factors within a term and terms by (degree, factors)
    base = alt.get("none")
    if base is not None and "formula" in base and not any(x["k"] == "built" for x in _walk_specs(c)):
        b = base["formula"]
        if _shape(b) != _shape(got):
            return f"ordering changes the structure: {_shape(b)} vs {_shape(got)}"
        for lb, lg in zip(_leaves(b), _leaves(got)):
            if c["ord"] == "degree":
                want = sorted(lb, key=_deg)
            else:
                want = sorted([sorted(t, key=lambda f: f[0]) for t in lb], key=lambda t: (_deg(t), [f[0] for f in t]))
                lg2 = [t for t in lg]
                if [(_deg(t), [f[0] for f in t]) for t in lg2] != [(_deg(t), [f[0] for f in t]) for t in want]:
                    return f"ordering=sort: got {lg}, expected {want}"
                continue
            if lg != want:
                return f"ordering=degree: got {lg}, expected the stable degree sort {want} of {lb}"
    if base is not None and "error" in base and c["ord"] in ORDERINGS:
        return f"the specification is accepted with ordering={c['ord']} but rejected ({base['error']}) with ordering=none"
    # a pickled / deep-copied formula is the same formula
    npst = alt.get("nopost")
    if npst is not None and npst != {"formula": got}:
        return f"formula changed by {c['post']}: {npst} -> {got}"
    # list elements given as strings or as the Terms they denote: the same formula
    t = alt.get("terms")
    if t is not None and t != {k: v for k, v in o.items() if k in ("formula", "error")}:
        return f"strings in a list vs the Terms they denote: {o.get('formula')} vs {t}"
    # tuple of one-part strings vs the multi-part string
    bar = alt.get("bar")
    if bar is not None and bar != {"formula": got}:
        return f"tuple of parts vs the `|` formula: {got} vs {bar}"
    # dict vs keywords
    kwv = alt.get("kw")
    if kwv is not None and kwv != {"formula": got}:
        return f"from_spec(dict) vs Formula(**dict): {got} vs {kwv}"
    return None


def describe(c):
    if c["kind"] == "spec":
        return "spec/" + c["entry"] + ("/" + (c["root"] or {}).get("k", "-") if c["entry"] != "simple" else "")
    return (c["kind"] + ("/default" if c["cfg"] == pc.CFG_DEFAULT else "/flags") + ("/dot" if c.get("avail") is not None else "")
            + ("/hist:" + c["hist"]["via"] if c.get("hist") else ""))


def nontrivial(c):
    return any(ch in c["s"] for ch in "+-*:/^~|")


def impl(c):
    if c["kind"] == "spec":
        return impl_spec(c)
    if c["kind"] == "base":
        return impl_base(c)
    if c["kind"] in ("grammar", "mutated", "edge"):
        st = impl_stages(c)
        wrap = lambda k: st[k] if isinstance(st[k], dict) and "error" in st[k] else {k: st[k]}
        return dict(terms=wrap("terms"), formula=wrap("formula"), tokens=st["tokens"], ast=st["ast"])
    t = pc.impl_terms(c["s"], c["cfg"], c.get("avail"), c.get("hist"))
    f = pc.impl_formula(c["s"], c["cfg"], c.get("avail"), c.get("hist"))
    out = dict(terms=t, formula=f)
    if c["kind"] == "identity":
        out["ident"] = _identities(c)
    if c["kind"] == "forms":
        out["forms"] = _forms(c)
    return out


def _F(s):
    from formulaic import Formula

    try:
        return pc.canon_val(Formula(s))
    except Exception as e:
        return {"error": pc.exc_class(e)}


def _identities(c):
    a, b, cc = c["a"], c["b"], c["c"]
    pairs = {
        "a*b = a+b+a:b": (f"({a}) * ({b})", f"({a}) + ({b}) + ({a}):({b})"),
        "b %in% a = a/b": (f"({b}) %in% ({a})", f"({a}) / ({b})"),
        "^ = **": (f"({a} + {b})^2", f"({a} + {b})**2"),
        "(a+b+c)**2": (f"({a} + {b} + {cc})**2", f"({a} + {b} + {cc}) + ({a} + {b} + {cc}):({a} + {b} + {cc})"),
    }
    out = {k: [_F(l), _F(r)] for k, (l, r) in pairs.items()}
    # a/b = a + a:b for a single-term parent
    out["a/b = a+a:b"] = [_F(f"{cc} / ({b})"), _F(f"{cc} + {cc}:({b})")]
    return out


def _forms(c):
    from formulaic import Formula

    def run(f):
        try:
            return pc.canon_val(f())
        except Exception as e:
            return {"error": pc.exc_class(e)}

    s = c["s"]
    lhs = c["lhs"][0]
    return {
        "str": run(lambda: Formula(s)),
        "list": run(lambda: Formula(["1"] + c["summands"])),
        "two_str": run(lambda: Formula(f"{lhs} ~ {s}")),
        "two_kw": run(lambda: Formula(lhs=lhs, rhs="1 + " + s)),
        "two_kw_list": run(lambda: Formula(lhs=[lhs], rhs=["1"] + c["summands"])),
    }


def request(c, o):
    if c["kind"] == "spec":
        return request_spec(c, o)
    if c["kind"] in ("grammar", "mutated", "edge"):
        return pc.request_for(c["s"], "all", c["cfg"], c.get("avail"))
    if c["kind"] == "base":
        return pc.request_for(c["s"], "base", c["cfg"], None)
    return pc.request_for(c["s"], "both", c["cfg"], c.get("avail"))


def agree(c, o, m):
    if "driver_error" in m:
        return "driver: " + m["driver_error"][:300]
    if c["kind"] == "base":
        return None if o == m else f"base-class FormulaParser: implementation {o} vs model {m}"
    if c["kind"] == "spec":
        oo = {k: v for k, v in o.items() if k in ("formula", "error")}
        return None if oo == m else f"specification form: implementation {oo} vs model {m}"
    it, if_ = o["terms"], o["formula"]
    if c["kind"] in ("grammar", "mutated", "edge"):
        # every stage separately: token list, tree, terms, Formula
        if o["tokens"] != m.get("tokens"):
            return f"get_tokens differs from the model: {o['tokens']} vs {m.get('tokens')}"
        if o["ast"] != m.get("ast"):
            return f"get_ast differs from the model: {o['ast']} vs {m.get('ast')}"
        for key, got in (("terms", it), ("formula", if_)):
            want = m.get(key)
            if isinstance(want, dict) and "error" in want:
                if got.get("error") != want["error"]:
                    return f"{key}: model error {want['error']} vs impl {got.get('error', 'ok')}"
            elif got.get(key) != want:
                return f"{key} differs from the model"
        return None
    if "error" in m:
        if it.get("error") == m["error"] and if_.get("error") == m["error"]:
            return None
        return f"model error {m['error']} vs impl terms={it.get('error', 'ok')} formula={if_.get('error', 'ok')}"
    if it.get("terms") != m.get("terms"):
        return "get_terms differs from the model"
    if if_.get("formula") != m.get("formula"):
        return "Formula(...) differs from the model"
    return None


def _internal(x):
    return isinstance(x, dict) and str(x.get("error", "")).startswith("internal:")


def oracle(c, o):
    if "harness_exception" in o:
        return "harness could not run the implementation: " + o["harness_exception"]
    if c["kind"] == "spec":
        return oracle_spec(c, o)
    if c["kind"] == "base":
        return None
    if c["kind"] == "grammar":
        for ordered, got, key in ((False, o["terms"], "terms"), (True, o["formula"], "formula")):
            try:
                want = pc.denote(c["ast"], c["cfg"], c.get("avail"), ordered=ordered)
            except pc.Reject as r:
                if "error" not in got:
                    return f"documented grammar rejects this formula ({r}) but {key} accepted it as {got[key]}"
                continue
            except (SyntaxError, ValueError, pc.TooBig):
                continue
            if "error" in got:
                return f"formula of the documented grammar rejected with {got['error']} (expected {want})"
            if got[key] != want:
                return f"{key}: got {got[key]}, documented algebra gives {want}"
    if c["kind"] == "edge" and c.get("expect") == "reject":
        for key in ("terms", "formula"):
            if o[key].get("error") != "FormulaParsingError":
                return f"{c['s']!r} is outside the documented grammar (template {c['tpl']}) but {key} gave {o[key]}"
    if c["kind"] == "identity":
        for name, (l, r) in o["ident"].items():
            if name == "(a+b+c)**2" and isinstance(l, list) and isinstance(r, list):
                # "all interactions up to order 2": a statement about the term set
                key = lambda ts: sorted(tuple(sorted(f[0] for f in t)) for t in ts)
                l, r = key(l), key(r)
            if l != r:
                return f"documented identity {name} fails: {l} vs {r}"
    if c["kind"] == "forms":
        f = o["forms"]
        if any("error" in v for v in f.values() if isinstance(v, dict)):
            if not all(isinstance(v, dict) and "error" in v for v in f.values()):
                # summands that are individually invalid make every form fail; a mix is a disagreement
                if "error" not in (f["str"] if isinstance(f["str"], dict) else {}):
                    return f"specification forms disagree on validity: {f}"
            return None
        keys = [tuple(sorted(x[0] for x in t)) for t in f["list"]] if isinstance(f["list"], list) else []
        if len(set(keys)) != len(keys):
            return None  # the list form keeps repeated terms; the equivalence is stated for duplicate-free sums
        if f["str"] != f["list"]:
            return f"string vs list-of-terms forms differ: {f['str']} vs {f['list']}"
        if not (f["two_str"] == f["two_kw"] == f["two_kw_list"]):
            return f"lhs~rhs string vs lhs=/rhs= forms differ: {f['two_str']} / {f['two_kw']} / {f['two_kw_list']}"
    return None


def classify(c, o, why):
    return None


LEVEL_TEXT = (
    "Proof (partial): Lean theorems about the executable model of the whole parser (tokenizer, token rewriting, sign-run collapsing, index-based shunting-yard, term algebra, _simplify, degree ordering) and of every specification form (Formula.from_spec, Formula(...), StructuredFormula, SimpleFormula, _ordering). "
    "MAIN THEOREM (parse_eq_denote_partial / parse_eq_denote_tokens_partial / formula_eq_denote_partial): for EVERY formula of the documented grammar — Side, ~ Side or Side ~ Side, a Side being Sum | ... | Sum, the Sums arbitrary expressions over + - * / %in% : ** ^, parentheses and a leading sign, unbounded nesting and lengths — that the feature flags allow and that has no literal 0 (see EXTENDED GRAMMAR for 0, sign runs, '.', opaque leaves), and for EVERY parser configuration, get_terms IS the documented denotation (Spec/WilkinsonDenote.lean: + union, - difference, : pairwise products, a*b = a+b+a:b, a/b, %in%, **n; every right-hand part read from {1} with include_intercept, from nothing on the left-hand side and without it; {lhs, rhs} / {root}; tuples for | parts; check_terms), rejections included, and Formula(<str>) is that denotation simplified and stably ordered by degree. Proved from the token sequence; from the STRING, with no hypothesis about the tokenizer, for every such formula written with one space after each token whose atoms are plain names or numbers (tokenize_rendered: the tokenizer returns exactly the tokens written; parse_eq_denote_rendered_partial); for any other spelling given that the string tokenises to that sequence (source spans are proved irrelevant). "
    "EXTENDED GRAMMAR (parse_eq_denote_runs_tokens_partial / parse_eq_denote_runs_partial / parse_eq_denote_rendered_runs_partial, reference semantics Spec/WilkinsonDenoteR.lean): the same theorem for formulas with arbitrary RUNS OF SIGNS wherever a sign may stand (read by parity: sign_run_resolves), the literal 0 as a summand (+ 0 removes, - 0 adds the intercept), the WILDCARD '.' as an atom (the available variables of the context that the written left-hand side does not use, the same at every occurrence; rejected without a context: wildcard_denotes_unused_variables) and ANY token that is not a bracket, an operator or 0 as a leaf (names, back-quoted names, numbers, strings, Python fragments, calls; the theorem does not look at the leaf's kind); without '.', that denotation is the old denotation of the normal form (runs_denote_as_normal_form). From the token sequence as written and as the lexer delivers it (a separator and the signs of the part after it are one token, which the rewriting treats like two: rewriting_ignores_merged_separators), from any spelling given its tokenisation, and from the STRING with no tokenizer hypothesis for single-space renderings that may contain sign runs, 0, '.', back-quoted names, brace fragments and calls (the tokenizer theorem uses C15's quoting lemmas), and for every re-spacing of such a string around operators, brackets, finished tokens and the end (parse_eq_denote_respaced_partial: C15's re-spacing relation plus the optional space between a finished word and a following operator character, closing parenthesis, %in% or the end). "
    "Its ingredients are theorems of their own: the live operator table equals the documented one for all 8 flag subsets (re-decided against the regenerated table on every run); the shunting-yard returns the documented tree for every expression of the arithmetic grammar and of the top level (toplevel_parses, ...), rejects what the flags disable, and never re-orders, drops or duplicates a token of an accepted list (shunt_preserves_tokens); the token-level intercept insertion (every right-hand part, no left-hand part, 0 -> - 1, and intercept_is_fold: '1 +' in front of a part IS reading the part from {1}); sign-run collapsing; evaluation = denotation on the arithmetic levels (eval_eq_denote). "
    "TERM ALGEBRA, for all operands and with order: + idempotent and associative, - is set difference on term identities, : distributes over + from the left, S**(n+1) = (S**n):S for every n, products respect term identity, a*b, %in%, ^, a/b, **2 identities, stable degree order. "
    "SPECIFICATION FORMS (forms_onesided, forms_twosided, string_eq_keywords_partial, ordering_methods): for every string parser, a string, the list of its Terms and a list of strings denoting them piecewise give the same SimpleFormula; 'lhs ~ rhs' as one string, as a dict, as lhs=/rhs= keywords and as a Structured (sides as strings or Term lists) give the same StructuredFormula; and for the documented grammar Formula('l ~ p') = Formula(lhs='l', rhs='1 + p') with no hypothesis left; none / degree / sort orderings characterised. "
    "What is NOT proved: a closed-form 'for every spacing function' statement (spacing is covered as the closure of the single-space rendering under whitespace insertion / removal at the gaps of a formula; for other spellings tokenisation is a hypothesis of the general string-level theorems), a sign directly after a binary operator that is neither a sign nor a separator (a * -b), multistage formulas, and the general from_spec recursion beyond the stated forms; these are covered by the differential correspondence of the model against the real code at every stage (tokens, tree, terms, formula, every specification form) plus the independent reference evaluator of the documented semantics on generated ASTs."
)
LEVEL_NOTE = (
    'Trusted: Lean kernel + propext/Classical.choice/Quot.sound; the hand models (parser stack, Model/FromSpec.lean, Model/BaseParser.lean) validated on every run by correspondence at every stage (get_tokens, get_ast, get_terms, Formula(), every specification form) on grammar-directed, mutated, template and specification-tree inputs; CPython ast.unparse normal forms, re character classes and set iteration order enter as data; the operator table and the default parser configurations / orderings are regenerated from the live package.'
)
