"""C08 — Text and categorical columns are dummy-coded; the matrix is always numeric.

Tie between model and source
* generated tables (harness/translate.py, regenerated from the live package on every run; the theorems are decided over them):
  `Gen.kindTable` (`_is_categorical` of the pandas materializer, of the narwhals materializer on a pandas frame and on a
  pyarrow table, on one probe series per dtype), `Gen.dtypeTables` (dtype of the returned matrix per dtype label x route x
  output, under a literal scale, of the intercept, of two columns stacked by the live `_combine_columns`),
  `Gen.FactorFormats` (the `str.format` templates of column names), `Gen.materializerOutputs` (registered output types).
* stream `dtypes` (engine `c08`, ops `build` + `history`): for every dtype constructor available a frame with such a column
  (plus a float column, sometimes more columns of other dtypes), the real `model_matrix("A + a", frame, output=…, materializer=…)`
  for each output x route against BOTH models (`Model/Encode.lean: build`, `Model/Encode2.lean: runHistory`): column names,
  exact cell values, dtype(s) of the container; the two models against each other.
* stream `history` (op `history`): 2-4 `get_model_matrix` calls on ONE materializer object (pandas; narwhals on a pandas frame,
  on a pyarrow table, on a narwhals frame), each with its own output type (pandas / numpy / sparse / narwhals), null policy, rank
  setting and formula of plain, `C(…)` (treatment base, `levels=`, the coding class, user-given contrast matrix / dictionary) and
  literal-scaled terms over text, categorical, numeric, bool and mixed-object columns; calls fail at arbitrary positions (a
  treatment base that is no level -- raised while a LATER term is encoded, after earlier terms were encoded and cached --, an
  unknown name, a repeated level, nulls under `raise`, ragged / misaligned contrast weights). Every call is compared with the
  model call by call and (oracle) with a NEW materializer on the same data.
  Variants: one call through `model_matrix` with and without naming the materializer (`for_data` / `SUPPORTS_INPUT`), on a dict
  of lists, a dict of scalars, a record array; corner frames (no level at all, one level, a matrix without columns) for
  every route x output.
* streams `levels` / `levels2` (ops `levels`, `levels2`): `encode_contrasts` level discovery on random value lists (text; Python
  scalars: integers, booleans, floats, bytes, mixtures that Python cannot sort; declared levels; an unknown output type) and the
  sparse dummy encoder `categorical_encode_series_to_sparse_csc_matrix` called directly (with and without `drop_first`) against
  `Model/PyLevels.lean` (first-seen distinct values, insertion sort with a comparison that can raise, labels, codes).
* stream `apply` (op `apply`): `TreatmentContrasts(base).apply(dummies, levels, reduced_rank, output=None)` on a pandas frame, a numpy
  array and a sparse matrix against `Enc2.applyTreatment`.

Oracle (implementation only, straight from the property text): the materialisation of a valid request succeeds; every cell is
a number and the container has an integer or floating-point dtype (every column of a frame, the array as a whole); a text
column yields one indicator column per level with the levels in sorted (code-point) order, a categorical dtype / `levels=` in
declared order (all levels, or all but the base level under rank reduction); every indicator column is (the literal scale
times) 1 exactly on the rows holding its level; user-given contrast columns hold the weight written for the row's level;
numeric and bool columns come out unchanged (times the scale) under their own name; the intercept is a column of ones; every
call on a reused materializer returns what a new materializer returns.
"""
from __future__ import annotations

import math
import numbers
import warnings
from fractions import Fraction

import numpy
import pandas

from harness import translate

PROPERTY = "C08"
ENGINE = "c08"
REQUIRED_THEOREMS = [
    # kind table, first model (Model/Encode.lean)
    "text_and_categorical_are_categorical",
    "numeric_is_numerical",
    "levels_sorted",
    "levels_declared",
    "dummy_names",
    "dummy_is_indicator",
    "text_column_encoding",
    "categorical_column_encoding",
    "numeric_passthrough",
    "cells_numeric",
    "cells_numeric_live",
    # level inference over Python scalars (Model/PyLevels.lean)
    "infer_levels_text",
    "infer_levels_complete",
    "infer_levels_first_seen",
    "sort_fails_iff_unorderable",
    "sort_sorted_perm",
    "infer_levels_order",
    "declared_levels",
    "codes_exact",
    # encoding of one factor (Model/Encode2.lean)
    "dummy_column_is_level_indicator",
    "treatment_base_missing_is_error",
    "treatment_columns",
    "text_or_categorical_column_is_categorical_factor",
    "numeric_column_is_numerical_factor",
    "numeric_term_passthrough",
    "plain_categorical_encoding",
    "text_term_sorted_indicators",
    "custom_contrast_cells",
    "custom_shape_mismatch_is_error",
    "scale_multiplies_cells",
    "intercept_column",
    # one object, any history of calls
    "history_is_fresh_builds",
    "history_cells_numeric",
    "history_cells_numeric_live",
    "fresh_matrix_is_spec",
    "history_is_spec",
    # hand-written constants against the live package; dtypes
    "live_factor_formats",
    "live_outputs_modelled",
    "live_dtype_tables_numeric",
    "matrix_dtypes_numeric",
    "matrix_dtypes_numeric_live",
]
TRUSTED = [
    "modelled, not verified: pandas' `factorize` / `safe_sort` / `Categorical` (the model states what they compute -- first-seen "
    "distinct values under Python `==`, a comparison sort, numbers before text, first-seen order when Python cannot sort, codes "
    "-- and the `levels2` stream compares it with pandas on every run), `pandas.get_dummies`, numpy/scipy/pandas type promotion "
    "and narwhals' / pyarrow's conversions (`Series.to_pandas`, `Table.from_pandas`, `from_dict`, `to_numpy`): they enter through "
    "the generated dtype tables and the correspondence, not through proofs",
    "the dtype probe list of harness/translate.py (`dtype_builders`, plus `kind_only_probes` for the kind table): the kind and "
    "dtype theorems quantify over exactly the dtypes listed there (every constructor that works with the installed pandas/pyarrow); the dtype of a matrix with several columns is "
    "modelled as a left fold of the two-column stacking table (checked per case)",
    "rank reduction is modelled only for main-effects formulas (a categorical main effect is reduced iff the intercept or an "
    "earlier categorical main effect is present); the general rule is property C03; interactions are C02; coding matrices other "
    "than treatment coding and user-given weights are C11",
    "`repr(float)` of a level is modelled only for values with a short terminating decimal expansion (the generator stays "
    "inside); `bytes` labels only for printable ASCII",
    "the `reset = false` variant of the history model (the tree without the cache reset at the start of `get_model_matrix`) was "
    "compared with that tree by hand (sparse column objects inside a pandas frame; pandas' length error), not on every run",
]
ASSUMPTIONS = [
    "'numeric columns pass through unchanged' is checked on exact values (integers as Python ints, never via float "
    "text): with output='pandas' (one dtype per column) and for a matrix with a single column every cell must equal "
    "its input exactly; in a numpy array / sparse matrix with several columns a cell may instead hold the float64 image "
    "of its input, because such a container has ONE dtype for all columns and stacking an integer column with the "
    "intercept, a float column or a sparse dummy column necessarily yields float64 -- that rounding is the container's "
    "(numpy/scipy type promotion), not a change made by the library",
    "'the matrix is always numeric' is read as: every cell is a number AND the container's dtype is an integer or floating-point "
    "dtype (each column of a pandas / native frame, the numpy array, the sparse matrix); an object array of Python numbers does "
    "not qualify (numpy.linalg rejects it). The tree under test needed a repair for that (see DESIGN: text in an extension "
    "string dtype with output='numpy')",
    "cells_numeric / history_cells_numeric are stated under the hypothesis `TableOK` (text and categorical dtypes classified "
    "CATEGORICAL); the `_live` forms discharge it for the generated table of the current tree; matrix_dtypes_numeric under the "
    "hypothesis that the generated dtype tables hold numeric dtypes only, discharged by live_dtype_tables_numeric",
    "fresh_matrix_is_spec / history_is_spec assume that no two terms of one formula share a factor -- the formula parser "
    "guarantees it (a second term over the same factors is the same term or a syntax error)",
    "nominated levels (`levels=`, a treatment base) are matched to values by Python `==` in the model; pandas matches by its own "
    "typed rules where a boolean meets an integer category (`True` is not the category `1`), so such combinations are left out; "
    "category labels are compared by their printed form (`str(level)`); an object column may mix text, integers, booleans and "
    "bytes (floats in object columns and levels whose labels coincide, like 9 and '9', are left out: pandas converts the former "
    "and the latter give two columns one name)",
    "na_action='ignore' is exercised where a null is a float NaN, a text/categorical null or (dtypes stream) a missing value of "
    "a nullable boolean dtype (`boolean`, `bool[pyarrow]`: it must come out as NaN in a numeric matrix -- the tree under test "
    "needed a repair for that); nullable integer / float extension dtypes with a missing value under 'ignore' are not generated; "
    "dtypes are compared only for matrices with at least one row and for frame input (pandas re-infers the dtypes of a dict / "
    "record array)",
    "pandas' Arrow-backed dtypes: a dictionary of string / large_string / int64 values (also ordered; the Arrow-backed "
    "categorical, family categorical, declared order = the dictionary) and Arrow binary / large_binary (family text; the values "
    "are `bytes`, generated from ASCII characters above the apostrophe so that the labels `b'..'` sort like the bytes) are in the "
    "kind table, the dtype tables and every stream; the Arrow view types (string_view, binary_view) are in the kind table only: "
    "pandas itself cannot take / filter / convert such a column (NotImplementedError / ArrowNotImplementedError inside pandas and "
    "pyarrow), so no matrix is requested for them",
    "observed by reviewers, outside the quantified dtypes / in the column-name-collision family, not checked here: a data column "
    "whose own name equals a generated level column name (`A[T.b]` next to the text column A) under the narwhals materializer "
    "(= finding C10-F2); a frame with two columns of one label (`df['s']` is a frame); levels whose printed forms coincide (10 "
    "and '10'); `string[python]` values that differ only by a trailing NUL (pandas' factorisation merges them); a Python list of "
    "text taken from the context or `s.tolist()` (classified numerical); interaction column names that coincide "
    "(`a[x]:b[y]:b[z]` from two different level pairs)",
    "a literal scale is applied only to columns whose scaled values stay inside their storage dtype (wrap-around in narrow "
    "integer dtypes is the known finding C02-F1); `C(<float16 column>)` is left out (pandas has no float16 index)",
    "known finding C08-F1 (classified, not a violation): output='narwhals' with a matrix that has no column at all raises TypeError",
]
RULE = (
    "dtypes: every dtype label of translate.dtype_builders (numpy, nullable-extension and Arrow-backed dtypes, incl. Arrow "
    "dictionaries and Arrow binary) x {pandas, narwhals on pandas, narwhals on pyarrow} x "
    "{pandas, numpy, sparse} with formula `A + a` (A of the dtype under test, a float64), random values (1-6 rows; text from a "
    "pool with upper/lower case, digits, non-ASCII, spaces, names that look library-internal; categorical with random declared "
    "order and unused categories; nulls where the dtype can hold them; integer columns of every width hold the extremes of their "
    "dtype and the neighbours of +-2**53), the same for every integer dtype standing alone (`0 + n`, both rank settings), plus "
    "random frames of 1-3 columns of random dtypes with intercept on/off, ensure_full_rank on/off, na_action drop/raise/ignore "
    "(under 'ignore' nulls in text, categorical, float and nullable boolean columns). "
    "row labels of the frames (random / history / entry / auto cases): the default 0..n-1 (40%), shuffled positions, offset "
    "reversed integers, text labels, repeated labels. "
    "history: frames of 2-4 columns (text / categorical / any dtype / object columns mixing text, integers, booleans, bytes), "
    "2-4 calls on one materializer object (4 routes), each call 1-3 terms (plain, C(x), C(x, contr.treatment), "
    "C(x, contr.treatment(base=v)), C(x, levels=[…]), C(x, <matrix | dict of weights>), any of them scaled by 2, 3, 10, 0.5, 2.5, "
    "4.0), its own output / null policy / rank setting / intercept; a fault (base that is no level, unknown name, repeated level) "
    "in about 40% of the calls, at least one per history, placed last in the formula 60% of the time; half of the histories "
    "contain a sparse call directly followed by a non-sparse one. entry: one call through model_matrix / a new materializer on "
    "a dict of lists, a dict of scalars, a record array, a frame; auto: model_matrix without a materializer name on a pandas "
    "frame, a pyarrow table, a narwhals frame. edge: all-null / single-level / empty-matrix frames for every route x output. "
    "levels / levels2: random value lists (text; Python scalars from pools of text, integers incl. 2**63 and 2**70, booleans, "
    "short floats, bytes and mixtures) with/without declared levels, all outputs, the sparse encoder with/without drop_first. "
    "apply: TreatmentContrasts.apply on 0-4 levels, 0-5 rows, three containers, base absent / a level / not a level. "
    "non-trivial = a text or categorical column with at least two distinct values (levels: two distinct values); distinct by "
    "canonical JSON"
)

MATS = ["pandas", "narwhals", "arrow"]
OUTPUTS = ["pandas", "numpy", "sparse"]
# the last four look like names the library uses internally (reserved `__…` dictionary keys, the `T.` prefix and the
# brackets of generated column labels): a level may be called anything
TEXT_POOL = ["a", "b", "c", "B", "Z", "aa", "a b", "10", "9", "é", "x-y", "zeta", "Alpha", "_u", "__x", "__kind__", "T.b", "[z]"]
CAT_POOL = ["lo", "mid", "hi", "top", "a", "b", "c", "Z", "__x", "__kind__", "T.b", "[z]"]
# Arrow binary columns hold `bytes`: the cases write them as ASCII text (every character above the apostrophe, so that the
# printed labels `b'..'` sort like the bytes themselves) and the column builder encodes it
BINARY_LABELS = ("arrow:binary", "arrow:large_binary")
BINARY_POOL = ["a", "b", "c", "B", "Z", "aa", "10", "9", "x-y", "zeta", "Alpha", "_u", "__x", "__kind__", "T.b", "[z]"]
INT_CATEGORY_LABELS = translate.INT_CATEGORY_LABELS
# nullable boolean dtypes: a missing value under na_action='ignore' must come out as NaN in a numeric matrix
NULLABLE_BOOL_LABELS = ("boolean", "bool[pyarrow]")


def level_label(col, v):
    """the printed form of a level of a text / categorical column (`str(level)`)"""
    return str(v.encode("ascii")) if col["label"] in BINARY_LABELS else str(v)


def fstr(x) -> str:
    fr = Fraction(x)
    return str(fr.numerator) if fr.denominator == 1 else f"{fr.numerator}/{fr.denominator}"


def builders():
    return {label: (family, build) for label, family, build in translate.dtype_builders()}


_B = None


def B():
    global _B
    if _B is None:
        _B = builders()
    return _B


def nullable(label, family):
    if family in ("text", "categorical"):
        return True
    if label in ("bool",) or (label[0] in "iu" and "[" not in label):
        return False
    return True


# ----------------------------------------------------------------------------- generators


def int_bounds(label):
    """(min, max) of an integer dtype label (`int8`, `UInt64`, `int64[pyarrow]`, ...)"""
    base = label.split("[")[0].lower()
    bits = int("".join(ch for ch in base if ch.isdigit()))
    return (0, 2**bits - 1) if base.startswith("u") else (-(2 ** (bits - 1)), 2 ** (bits - 1) - 1)


def int_pool(label):
    """[min, max, ...]: extremes of the dtype, their neighbours, and the integers around +-2**53 that fit"""
    lo, hi = int_bounds(label)
    cands = [lo, hi, lo + 1, hi - 1, 2**53 + 1, -(2**53) - 1, 2**53 - 1, 2**53, 2**53 + 3, -(2**53) - 3, 2**62 + 1, 0, 1]
    out = []
    for v in cands:
        if lo <= v <= hi and v not in out:
            out.append(v)
    return out


def gen_column(rng, name, label, family, nrows, allow_null=True):
    """column description: {name,label,family,vals,(declared)}; numeric vals are 'p/q' strings"""
    null_p = 0.15 if (allow_null and nullable(label, family) and rng.random() < 0.5) else 0.0

    def maybe(v):
        return None if rng.random() < null_p else v

    col = dict(name=name, label=label, family=family)
    if family == "text":
        k = rng.randint(1, 4)
        pool = rng.sample(BINARY_POOL if label in BINARY_LABELS else TEXT_POOL, k)
        col["vals"] = [maybe(rng.choice(pool)) for _ in range(nrows)]
    elif family == "categorical":
        k = rng.randint(1, 4)
        if label in INT_CATEGORY_LABELS:
            pool = rng.sample([1, 2, 3, 10, 20, -1], k)
        else:
            pool = rng.sample(CAT_POOL, k)
        rng.shuffle(pool)
        used = pool if rng.random() < 0.6 else pool[: max(1, k - 1)]  # leave a declared category unused
        col["declared"] = pool
        col["vals"] = [maybe(rng.choice(used)) for _ in range(nrows)]
    elif family == "numeric":
        if label.lower().startswith(("float", "double")):
            small = "16" in label
            col["vals"] = [maybe(fstr(Fraction(rng.randint(-12, 12), 1 if small else rng.choice([1, 2, 4])))) for _ in range(nrows)]
        else:
            # integers: small values mixed with the extremes of the dtype and the neighbours of 2**53 (the first
            # integers a float64 cannot hold), so that "unchanged" is tested on values that do not survive a detour
            # through floating point
            pool = int_pool(label)
            extreme = rng.random() < 0.7
            vals = [rng.choice(pool) if (extreme and rng.random() < 0.6) else rng.randint(max(pool[0], -5), 9) for _ in range(nrows)]
            if extreme and nrows:
                vals[rng.randrange(nrows)] = rng.choice(pool[:2] + [v for v in pool if abs(v) > 2**53][:4])
            col["vals"] = [maybe(fstr(v)) for v in vals]
    else:
        col["vals"] = [maybe(rng.random() < 0.5) for _ in range(nrows)]
    return col


def base_case(rng, label, family, mat, output):
    nrows = rng.randint(1, 6)
    a = gen_column(rng, "a", "float64", "numeric", nrows, allow_null=rng.random() < 0.3)
    A = gen_column(rng, "A", label, family, nrows)
    return dict(kind="dtypes", cols=[A, a], intercept=True, efr=True, na="drop", mat=mat, output=output)


def alone_case(rng, label, mat, output, efr):
    """`0 + n`: an integer column on its own (the matrix keeps the integer dtype for every output type)"""
    nrows = rng.randint(1, 5)
    n = gen_column(rng, "n", label, "numeric", nrows, allow_null=False)
    return dict(kind="dtypes", cols=[n], intercept=False, efr=efr, na="drop", mat=mat, output=output)


def is_int_label(label, family):
    return family == "numeric" and not label.lower().startswith(("float", "double"))


def random_case(rng):
    bs = B()
    labels = sorted(bs)
    nrows = rng.randint(1, 6)
    ncol = rng.randint(1, 3)
    na = rng.choice(["drop", "drop", "drop", "raise", "ignore"])
    cols = []
    for name in ["A", "B", "t"][:ncol]:
        label = rng.choice(labels)
        family = bs[label][0]
        allow_null = na != "ignore" or family in ("text", "categorical") or label in ("float32", "float64") or label in NULLABLE_BOOL_LABELS
        cols.append(gen_column(rng, name, label, family, nrows, allow_null=allow_null))
    return dict(kind="dtypes", cols=cols, intercept=rng.random() < 0.7, efr=rng.random() < 0.7, na=na,
                mat=rng.choice(MATS), output=rng.choice(OUTPUTS), index=gen_index(rng, nrows))


def levels_case(rng):
    n = rng.randint(0, 8)
    pool = rng.sample(TEXT_POOL, rng.randint(1, 6))
    vals = [None if rng.random() < 0.15 else rng.choice(pool) for _ in range(n)]
    declared = None
    if rng.random() < 0.4:
        declared = rng.sample(pool, rng.randint(1, len(pool)))
    return dict(kind="levels", vals=vals, declared=declared, dtype=rng.choice(["object", "str", "category"]),
                output=rng.choice(OUTPUTS))


def cases(rng, tier):
    bs = B()
    reps = {"quick": 1, "thorough": 8, "search": 1}[tier]
    combos = [(label, mat, out) for label in bs for mat in MATS for out in OUTPUTS]
    if tier == "search":
        rng.shuffle(combos)
    for _ in range(reps):
        for label, mat, out in combos:
            yield base_case(rng, label, bs[label][0], mat, out)
        for label, mat, out in combos:
            if is_int_label(label, bs[label][0]):
                for efr in (True, False):
                    yield alone_case(rng, label, mat, out, efr)
    for _ in range({"quick": 300, "thorough": 4000, "search": 150}[tier]):
        yield random_case(rng)
    for _ in range({"quick": 150, "thorough": 1500, "search": 0}[tier]):
        yield levels_case(rng)
    for _ in range({"quick": 220, "thorough": 3000, "search": 120}[tier]):
        yield history_case(rng)
    for _ in range({"quick": 100, "thorough": 1500, "search": 40}[tier]):
        yield entry_case(rng)
    for _ in range({"quick": 70, "thorough": 1000, "search": 30}[tier]):
        yield auto_case(rng)
    for _ in range({"quick": 1, "thorough": 12, "search": 1}[tier]):
        for mat in HIST_MATS:
            for shape in ("allnull", "single", "empty"):
                for output in OUTS_FOR[mat]:
                    yield edge_case(rng, mat, shape, output)
    for _ in range({"quick": 120, "thorough": 1500, "search": 0}[tier]):
        yield apply_case(rng)
    for _ in range({"quick": 200, "thorough": 2500, "search": 0}[tier]):
        yield levels2_case(rng)


def describe(c):
    if c["kind"] == "levels":
        return "levels"
    if c["kind"] == "levels2":
        return "levels2"
    if c["kind"] == "apply":
        return f"apply,{c['container']}"
    if c["kind"] == "history":
        faults = sum(1 for k in c["calls"] if k.get("fault"))
        return f"history,{c['entry']},{c['mat']},calls={len(c['calls'])},faults={faults}"
    if len(c["cols"]) == 1 and c["cols"][0]["name"] == "n":
        return f"alone,{c['cols'][0]['label']},{c['mat']},{c['output']},efr={int(c['efr'])}"
    return f"{c['cols'][0]['label']},{c['mat']},{c['output']}" if len(c["cols"]) == 2 and c["cols"][1]["name"] == "a" else f"random,{c['mat']},{c['output']},na={c['na']}"


def nontrivial(c):
    if c["kind"] == "levels":
        return len({v for v in c["vals"] if v is not None}) >= 2
    if c["kind"] == "levels2":
        return len({canon_pv(v) for v in c["vals"] if v is not None}) >= 2
    if c["kind"] == "apply":
        return len(c["levels"]) >= 2
    if c["kind"] == "history":
        return any(col["family"] in ("text", "categorical", "mixed") for col in c["cols"]) and len(c["calls"]) >= 1
    return any(col["family"] in ("text", "categorical") and len({v for v in col["vals"] if v is not None}) >= 2 for col in c["cols"])


# ----------------------------------------------------------------------------- impl


def make_series(col):
    family, build = B()[col["label"]]
    vals = col["vals"]
    if family == "numeric":
        conv = float if col["label"].lower().startswith(("float", "double")) else int
        vals = [None if v is None else conv(Fraction(v)) for v in vals]
    with warnings.catch_warnings():
        warnings.simplefilter("ignore")
        if family == "categorical":
            return build(vals, categories=col.get("declared"))
        return build(vals)


def make_frame(c):
    return set_index(pandas.DataFrame({col["name"]: make_series(col) for col in c["cols"]}), c)


def formula_of(c):
    f = " + ".join(col["name"] for col in c["cols"])
    return f if c["intercept"] else f + " - 1"


def cell(x):
    """canonical cell: 'p/q' | 'nan' | {'s': repr-ish} (the latter is NOT a number)"""
    if isinstance(x, (bool, numpy.bool_)):
        return {"b": bool(x)}
    if isinstance(x, numbers.Number) or isinstance(x, numpy.number):
        try:
            if math.isnan(x):
                return "nan"
            return fstr(Fraction(x))
        except Exception:
            return {"s": repr(x)}
    return {"s": str(x)}


def matrix_observable(mm, output):
    names = [str(n) for n in mm.model_spec.column_names]
    if output == "pandas":
        df = mm.__wrapped__ if hasattr(mm, "__wrapped__") else mm
        cols = [[cell(x) for x in df.iloc[:, j].tolist()] for j in range(df.shape[1])]
        numeric = all(pandas.api.types.is_numeric_dtype(dt) and not pandas.api.types.is_bool_dtype(dt) for dt in df.dtypes)
        shown = [str(x) for x in df.columns]
    else:
        arr = mm.toarray() if hasattr(mm, "toarray") else numpy.asarray(mm)
        arr = numpy.asarray(arr)
        cols = [[cell(x) for x in arr[:, j].tolist()] for j in range(arr.shape[1])] if arr.ndim == 2 else []
        numeric = arr.dtype.kind in "iuf"
        shown = names
    return dict(names=names, shown=shown, cols=cols, numeric_dtype=bool(numeric))


def impl_dtypes(c):
    from formulaic import model_matrix

    try:
        df = make_frame(c)
        data = df
        if c["mat"] == "arrow":
            import pyarrow

            data = pyarrow.Table.from_pandas(df, preserve_index=False)
    except Exception as e:
        return {"skip": "input could not be constructed: " + type(e).__name__ + ": " + str(e)[:120]}
    try:
        with warnings.catch_warnings():
            warnings.simplefilter("ignore")
            mm = model_matrix(formula_of(c), data, output=c["output"], ensure_full_rank=c["efr"], na_action=c["na"],
                              materializer="pandas" if c["mat"] == "pandas" else "narwhals")
    except Exception as e:
        return {"error": type(e).__name__, "msg": str(e)[:200]}
    return observe(mm, c["output"])


def as_history(c):
    """a case of the `dtypes` stream in the form of the `history` stream (one call, plain terms): the same frame is also run
    through the extended model (`Model/Encode2.lean`), so that both models are compared with the implementation -- and with
    each other -- on every dtype x route x output"""
    terms = [dict(expr=col["name"], name=col["name"], isC=False, base=None, levels=None, scale=None) for col in c["cols"]]
    call = dict(intercept=c["intercept"], efr=c["efr"], na=c["na"], output=c["output"], terms=terms, fault=None)
    return dict(kind="history", entry="function", container="frame", mat=c["mat"], cols=c["cols"], calls=[call])


def impl_levels(c):
    from formulaic.model_spec import ModelSpec
    from formulaic.transforms.contrasts import encode_contrasts

    vals = c["vals"]
    if c["dtype"] == "category":
        cats = sorted({v for v in vals if v is not None})
        data = pandas.Series(pandas.Categorical(vals, categories=cats[::-1]))  # declared order: reverse sorted
    else:
        data = pandas.Series(vals, dtype=c["dtype"])
    state = {}
    spec = ModelSpec(formula=[], output=c["output"])
    try:
        with warnings.catch_warnings():
            warnings.simplefilter("ignore")
            encode_contrasts(data, levels=c["declared"], reduced_rank=False, _state=state, _spec=spec)
    except Exception as e:
        return {"error": type(e).__name__, "msg": str(e)[:200]}
    return {"levels": [str(x) for x in state["categories"]]}


def impl(c):
    if c["kind"] == "history":
        return impl_history(c)
    if c["kind"] == "levels2":
        return impl_levels2(c)
    if c["kind"] == "apply":
        return impl_apply(c)
    return impl_levels(c) if c["kind"] == "levels" else impl_dtypes(c)


# ----------------------------------------------------------------------------- request / agree


def col_request(col):
    t = {"text": "text", "categorical": "cat", "numeric": "num", "bool": "bool"}[col["family"]]
    out = dict(name=col["name"], dtype=col["label"], type=t, vals=col["vals"])
    if col["label"] in BINARY_LABELS:
        out["vals"] = [None if v is None else level_label(col, v) for v in col["vals"]]
    if t == "cat":
        out["declared"] = [str(x) for x in (col.get("declared") or sorted({v for v in col["vals"] if v is not None}))]
        out["vals"] = [None if v is None else str(v) for v in col["vals"]]
    return out


def request(c, o):
    if c["kind"] == "history":
        return request_history(c)
    if c["kind"] == "levels2":
        return dict(op="levels2", vals=c["vals"], declared=c["declared"], output=c["output"], drop_first=c["drop_first"])
    if c["kind"] == "apply":
        return dict(op="apply", levels=c["levels"], codes=c["codes"], base=c["base"], reduced=c["reduced"])
    if c["kind"] == "levels":
        declared = c["declared"]
        if declared is None and c["dtype"] == "category":
            declared = sorted({v for v in c["vals"] if v is not None})[::-1]
        return dict(op="levels", vals=c["vals"], declared=declared)
    nrows = len(c["cols"][0]["vals"])
    return dict(op="build", mat=c["mat"], intercept=c["intercept"], efr=c["efr"], na=c["na"], nrows=nrows,
                cols=[col_request(col) for col in c["cols"]], hist=request_history(as_history(c)))


def float_image(fr):
    """the value a float64 holds for the exact number `fr` (round to nearest)"""
    return Fraction(float(fr))


def allow_common_dtype(c, ncols):
    """May a cell hold the float64 image of its input instead of the input itself?

    A pandas frame has one dtype per column, so a numeric column must come out exactly as it went in. A numpy array
    or sparse matrix has ONE dtype for all columns: stacked with a float column (the intercept, a float input, a sparse
    dummy column) an integer column is necessarily held in the common dtype float64. That conversion is the container's,
    not a change of the numbers by the library, and is accepted -- but only when the matrix has more than one column."""
    return c["output"] != "pandas" and ncols > 1


def _same_cell(a, b, allow_float=False):
    if isinstance(a, dict) and "b" in a:
        a = "1" if a["b"] else "0"
    if isinstance(a, dict) or isinstance(b, dict):
        return a == b
    if a == "nan" or b == "nan":
        return a == b
    x, y = Fraction(a), Fraction(b)
    return x == y or (allow_float and x == float_image(y))


def agree(c, o, m):
    if "driver_error" in m:
        return "driver: " + m["driver_error"][:300]
    if "harness_exception" in o or "skip" in o:
        return None
    if c["kind"] == "history":
        return agree_history(c, o, m)
    if c["kind"] == "levels2":
        return agree_levels2(c, o, m)
    if c["kind"] == "apply":
        if "error" in o or "error" in m:
            return None if o.get("error") == m.get("error") else f"apply: impl {o.get('error', 'ok')} ({o.get('msg', '')}) vs model {m.get('error', 'ok')}"
        if o["names"] != [x["name"] for x in m["columns"]]:
            return f"apply: column names: impl {o['names']} vs model {[x['name'] for x in m['columns']]}"
        for oc, mc in zip(o["cols"], m["columns"]):
            if len(oc) != len(mc["values"]) or not all(_same_cell(a, b) for a, b in zip(oc, mc["values"])):
                return f"apply: column {mc['name']}: impl {oc} vs model {mc['values']}"
        return None
    if c["kind"] == "levels":
        if "error" in o:
            return f"encode_contrasts raised {o['error']}: {o.get('msg')}"
        return None if o["levels"] == m.get("levels") else f"levels differ: impl {o['levels']} vs model {m.get('levels')}"
    if "error" in o or "error" in m:
        if "error" in o and "error" in m:
            return agree_new_model(c, o, m)
        return f"impl {o.get('error', 'ok')} ({o.get('msg', '')}) vs model {m.get('error', 'ok')}"
    mn = [x["name"] for x in m["columns"]]
    if mn != o["names"]:
        return f"column names differ: impl {o['names']} vs model {mn}"
    for j, (mc, oc) in enumerate(zip(m["columns"], o["cols"])):
        af = allow_common_dtype(c, len(mn))
        if len(mc["values"]) != len(oc) or not all(_same_cell(a, b, af) for a, b in zip(oc, mc["values"])):
            return f"column {mc['name']}: impl {oc} vs model {mc['values']}"
    return agree_new_model(c, o, m)


def agree_new_model(c, o, m):
    """the extended model on the same case: against the implementation (cells, names, dtypes) and against the first model"""
    new = m.get("new")
    if not isinstance(new, dict) or "results" not in new:
        return f"the extended model did not answer: {str(new)[:200]}"
    why = agree_history(as_history(c), {"results": [o]}, new)
    if why:
        return "extended model: " + why
    r = new["results"][0]
    if ("error" in r) != ("error" in m):
        return f"the two models differ: {m.get('error', 'ok')} vs {r.get('error', 'ok')}"
    if "error" not in r and [(x["name"], x["values"]) for x in r["columns"]] != [(x["name"], x["values"]) for x in m["columns"]]:
        return f"the two models differ: {m['columns']} vs {r['columns']}"
    return None


# ----------------------------------------------------------------------------- oracle


def _retained(c):
    n = len(c["cols"][0]["vals"])
    nulls = [any(col["vals"][i] is None for col in c["cols"]) for i in range(n)]
    if c["na"] == "drop":
        return [i for i in range(n) if not nulls[i]], nulls
    return list(range(n)), nulls


def oracle(c, o):
    if "harness_exception" in o:
        return "harness could not run the implementation: " + o["harness_exception"]
    if "skip" in o:
        return None
    if c["kind"] == "history":
        return oracle_history(c, o)
    if c["kind"] == "levels2":
        return oracle_levels2(c, o)
    if c["kind"] == "apply":
        return oracle_apply(c, o)
    if c["kind"] == "levels":
        if "error" in o:
            return f"encode_contrasts raised {o['error']}: {o.get('msg')}"
        present = sorted({v for v in c["vals"] if v is not None})
        if c["declared"] is not None:
            want = list(c["declared"])
        elif c["dtype"] == "category":
            want = present[::-1]
        else:
            want = present
        return None if o["levels"] == want else f"levels {o['levels']}, the property requires {want}"
    keep, nulls = _retained(c)
    if c["na"] == "raise" and any(nulls):
        return None if "error" in o else "na_action='raise' with a null present did not raise"
    if "error" in o:
        return f"materialisation failed with {o['error']}: {o.get('msg', '')}"
    # every cell a number
    for name, col in zip(o["names"], o["cols"]):
        for x in col:
            if isinstance(x, dict) and "s" in x:
                return f"cell {x['s']!r} of column {name!r} is not a number"
    # "the matrix is always numeric": the container itself must have an integer or floating-point dtype (every column
    # of a frame, the array / sparse matrix as a whole) -- an object array of Python numbers is rejected by numpy.linalg
    if not o.get("numeric_dtype", True):
        return ("the matrix is not numeric: a column of the frame / the array has a dtype that is neither integer nor "
                "floating point (object or bool)")
    if o["shown"] != o["names"]:
        return f"the matrix shows columns {o['shown']} but the spec names {o['names']}"
    # expected column structure
    pos = 0
    names, cols = o["names"], o["cols"]

    def colvals(j):
        return [("1" if x["b"] else "0") if isinstance(x, dict) else x for x in cols[j]]

    if c["intercept"]:
        if not names or names[0] != "Intercept":
            return f"first column is {names[:1]}, expected Intercept"
        if any(x == "nan" or Fraction(x) != 1 for x in colvals(0)) or len(cols[0]) != len(keep):
            return f"Intercept column is {cols[0]} for {len(keep)} retained rows"
        pos = 1
    for col in c["cols"]:
        vals = [col["vals"][i] for i in keep]
        nm = col["name"]
        if col["family"] in ("text", "categorical"):
            if col["family"] == "text":
                levels = sorted({v for v in vals if v is not None})
            else:
                levels = [x for x in col["declared"]]
            labels = [level_label(col, x) for x in levels]
            # the emitted level columns of this factor
            emitted = []
            while pos < len(names) and names[pos].startswith(nm + "["):
                emitted.append(pos)
                pos += 1
            got = [names[j] for j in emitted]
            full = [f"{nm}[{l}]" for l in labels]
            red = [f"{nm}[T.{l}]" for l in labels[1:]]
            if got == full:
                used = levels
            elif got == red:
                used = levels[1:]
            else:
                kind = "sorted" if col["family"] == "text" else "declared"
                return (f"column {nm} ({col['label']}) is encoded as {got}; with levels in {kind} order {labels} the indicator "
                        f"columns must be {full} or (reduced) {red}")
            for j, lv in zip(emitted, used):
                want = ["1" if v == lv else "0" for v in vals]
                if [None if x == "nan" else Fraction(x) for x in colvals(j)] != [Fraction(x) for x in want]:
                    return f"column {names[j]} is {cols[j]}, the indicator of level {lv!r} is {want}"
        else:
            if pos >= len(names) or names[pos] != nm:
                return (f"{col['family']} column {nm} ({col['label']}) must pass through under its own name; "
                        f"columns are {names}")
            if col["family"] == "bool":
                want = [None if v is None else Fraction(int(v)) for v in vals]
            else:
                want = [None if v is None else Fraction(v) for v in vals]
            got = [None if x == "nan" else Fraction(x) for x in colvals(pos)]
            af = allow_common_dtype(c, len(names))

            def unchanged(g, w):
                if g is None or w is None:
                    return g is None and w is None
                return g == w or (af and g == float_image(w))

            if len(got) != len(want) or not all(unchanged(g, w) for g, w in zip(got, want)):
                how = ("exactly (integers compared as Python ints)" if not af else
                       "exactly or as their float64 image (the matrix has one dtype for all its columns)")
                return (f"numeric column {nm} ({col['label']}) is {cols[pos]}, the input values are "
                        f"{[None if w is None else fstr(w) for w in want]}; they must come out {how}")
            pos += 1
    if pos != len(names):
        return f"unexpected extra columns {names[pos:]}"
    return None



# ----------------------------------------------------------------------------- extended streams
# Python scalars as values (object columns may mix text, integers, booleans, bytes), explicit `C(...)` terms with a
# treatment base / `levels=`, terms scaled by a numeric literal, several calls on ONE materializer object (some of
# which fail while a later term is encoded), dict / record-array input and the `narwhals` output type.


def pv(x):
    """Python scalar -> JSON form understood by the engine"""
    if x is None:
        return None
    if isinstance(x, (bool, numpy.bool_)):
        return {"b": bool(x)}
    if isinstance(x, (int, numpy.integer)):
        return {"i": str(int(x))}
    if isinstance(x, (float, numpy.floating)):
        return {"f": fstr(Fraction(float(x)))}
    if isinstance(x, bytes):
        return {"y": x.decode("ascii")}
    return {"s": str(x)}


def unpv(j):
    if j is None:
        return None
    if "s" in j:
        return j["s"]
    if "i" in j:
        return int(j["i"])
    if "b" in j:
        return bool(j["b"])
    if "f" in j:
        return float(Fraction(j["f"]))
    return j["y"].encode("ascii")


def canon_pv(j):
    return "null" if j is None else "%s:%s" % next(iter(j.items()))


def pylit(j):
    """the value as Python source text, in the form the formula tokenizer leaves it"""
    return repr(unpv(j))


def col_py(col):
    """the values of a generated column as Python scalars (JSON form)"""
    if "py" in col:
        return col["py"]
    fam = col["family"]
    if fam == "numeric":
        is_f = col["label"].lower().startswith(("float", "double"))
        return [None if v is None else ({"f": v} if is_f else {"i": v}) for v in col["vals"]]
    if col["label"] in BINARY_LABELS:
        return [None if v is None else {"y": v} for v in col["vals"]]
    return [pv(v) for v in col["vals"]]


def col_declared(col):
    if col["family"] != "categorical":
        return None
    d = col.get("declared")
    if d is None:
        d = sorted({v for v in col["vals"] if v is not None})
    return [pv(x) for x in d]


MIXED_POOLS = [
    ["b", 2, "a", 1],
    [True, 1, 0, False, 2],
    [1, True, 0, "x"],
    [b"a", 1, b"b"],
    [b"b", b"a", "a"],
    [b"a", 1, "x"],
    [3, -1, 10, 2**70],
    [True, False],
    ["10", 9, "nine", 11],
    [0, "__x", "T.b", -5],
]


def gen_mixed(rng, name, nrows):
    pool = rng.choice(MIXED_POOLS)
    null_p = rng.choice([0.0, 0.0, 0.2])
    vals = [None if rng.random() < null_p else rng.choice(pool) for _ in range(nrows)]
    return dict(name=name, label="object", family="mixed", py=[pv(v) for v in vals])


HIST_MATS = ["pandas", "narwhals", "arrow", "nwframe"]
OUTS_FOR = {"pandas": ["pandas", "numpy", "sparse"], "narwhals": ["pandas", "numpy", "sparse", "narwhals"],
            "arrow": ["pandas", "numpy", "sparse", "narwhals"], "nwframe": ["pandas", "numpy", "sparse", "narwhals"]}
# labels of which a column can be handed over as a dict of lists / scalars or a record array (pandas re-infers the dtype)
PLAIN_LABELS = {"str": "text", "int64": "numeric", "float64": "numeric", "bool": "bool"}


def gen_frame_cols(rng, mat, nrows, labels=None):
    bs = B()
    ncol = rng.randint(2, 4)
    names = ["t", "b", "a", "n"][:ncol]
    cols = []
    for i, name in enumerate(names):
        r = rng.random()
        if labels is not None:
            label = rng.choice(sorted(labels))
            family = labels[label]
        elif i == 0 or r < 0.35:
            label = rng.choice([l for l in bs if bs[l][0] in ("text", "categorical")])
            family = bs[label][0]
        elif r < 0.5 and mat != "arrow":
            cols.append(gen_mixed(rng, name, nrows))
            continue
        else:
            label = rng.choice(sorted(bs))
            family = bs[label][0]
        allow_null = family in ("text", "categorical") or label in ("float32", "float64")
        if labels is not None and label != "float64" and family != "text":
            allow_null = False
        cols.append(gen_column(rng, name, label, family, nrows, allow_null=allow_null))
    return cols


def present_values(col):
    out = []
    for v in col_py(col):
        if v is not None and canon_pv(v) not in [canon_pv(x) for x in out]:
            out.append(v)
    return out


def small_numbers(col):
    """may the column be multiplied by a literal up to 10 inside its own dtype (a narrow integer dtype wraps around: C02-F1)"""
    return all(v is None or "b" in v or abs(Fraction(next(iter(v.values())))) <= 12 for v in col_py(col))


def gen_term(rng, col, fault=None):
    name = col["name"]
    present = present_values(col)
    declared = col_declared(col)
    is_num = col["family"] in ("numeric", "bool")
    shape = rng.choice(["plain", "plain", "plain", "C", "Cbase", "Clevels", "Cboth", "Cclass", "Ccustom"] if not is_num else ["plain", "plain", "plain", "C", "Cbase", "Cclass", "Ccustom"])
    if col["family"] == "mixed" and {"b", "i"} <= {next(iter(v)) for v in present} and shape in ("Cbase", "Clevels", "Cboth", "Ccustom"):
        # nominated levels / a base next to values of another Python type that compare equal (True and 1): pandas matches
        # values to nominated categories by its own typed rules, not by `==`; left out
        shape = "C"
    if col["label"] == "float16":
        shape = "plain"  # pandas has no float16 index: `C(<float16 column>)` cannot list its levels (NotImplementedError in pandas)
        fault = "name" if fault == "name" else None
    if fault in ("base", "duplevels") and shape in ("plain", "C"):
        shape = "Cbase" if fault == "base" else "Clevels"
    if fault == "name":
        name = "zz"
        shape = rng.choice(["plain", "C", "Cclass"])
    base = None
    levels = None
    pool = declared if declared else present
    if shape in ("Clevels", "Cboth"):
        k = rng.randint(0, len(pool))
        levels = rng.sample(pool, k)
        if rng.random() < 0.3:
            levels.append({"s": "absent"} if not is_num else {"i": "77"})
        rng.shuffle(levels)
        if fault == "duplevels":
            levels = (levels or [{"s": "q"}])
            levels = levels + [levels[0]]
    if shape in ("Cbase", "Cboth"):
        cands = levels if levels else pool
        if fault == "base" or not cands:
            base = {"s": "nope"} if rng.random() < 0.7 else {"i": "12345"}
        else:
            base = rng.choice(cands)
    is_c = shape != "plain"
    args = [name]
    custom = None
    if shape == "Ccustom":
        custom, text = gen_custom(rng, len(pool) if rng.random() < 0.85 else rng.randint(0, 4))
        args.append(text)
        if rng.random() < 0.3 and pool:
            levels = rng.sample(pool, len(pool))
    if shape == "Cclass":
        args.append("contr.treatment")  # the coding class itself, not an instance: same as the default
    if base is not None:
        args.append(f"contr.treatment(base={pylit(base)})")
    if levels is not None:
        args.append("levels=[" + ", ".join(pylit(l) for l in levels) + "]")
    expr = f"C({', '.join(args)})" if is_c else name
    scale = None
    if rng.random() < 0.2 and (not is_num or small_numbers(col)) and col["family"] != "mixed":
        scale = rng.choice([{"i": "2"}, {"i": "3"}, {"i": "10"}, {"f": "1/2"}, {"f": "5/2"}, {"f": "4"}])
    return dict(expr=expr, name=name, isC=is_c, base=base, levels=levels, scale=scale, custom=custom, classArg=shape == "Cclass")


WEIGHTS = ["0", "1", "-1", "2", "1/2", "-3/2", "3"]


def weight_text(w):
    fr = Fraction(w)
    return str(fr.numerator) if fr.denominator == 1 else repr(float(fr))


def gen_custom(rng, nlevels):
    """contrasts written by the user for `nlevels` levels: a matrix (one row per level) or a dictionary name -> weights"""
    ncon = rng.randint(1, 3)
    if rng.random() < 0.5 and nlevels > 0:
        rows = [[rng.choice(WEIGHTS) for _ in range(ncon)] for _ in range(nlevels)]
        if rows and rng.random() < 0.06:
            rows[-1] = rows[-1][:-1]  # ragged
        text = "[" + ", ".join("[" + ", ".join(weight_text(w) for w in r) + "]" for r in rows) + "]"
        return {"matrix": rows}, text
    names = rng.sample(["lo", "hi", "mid", "c1", "T.x"], ncon)
    entries = [[nm, [rng.choice(WEIGHTS) for _ in range(nlevels)]] for nm in names]
    text = "{" + ", ".join(f"{nm!r}: [" + ", ".join(weight_text(w) for w in ws) + "]" for nm, ws in entries) + "}"
    return {"dict": entries}, text


def scale_text(sc):
    if sc is None:
        return ""
    if "i" in sc:
        return sc["i"] + ":"
    return repr(float(Fraction(sc["f"]))) + ":"


def gen_call(rng, cols, mat, fault=None):
    k = rng.randint(1, min(3, len(cols)))
    chosen = rng.sample(cols, k)
    terms = [gen_term(rng, col) for col in chosen]
    na = rng.choice(["drop", "drop", "ignore", "raise"])
    if fault is not None:
        pos = len(terms) - 1 if rng.random() < 0.6 else rng.randrange(len(terms))
        terms[pos] = gen_term(rng, chosen[pos], fault=fault)
        if fault == "name" and na == "raise":
            na = "drop"
    return dict(intercept=rng.random() < 0.7, efr=rng.random() < 0.75, na=na, output=rng.choice(OUTS_FOR[mat]), terms=terms,
                fault=fault)


def gen_index(rng, nrows):
    """row labels of the frame: the default 0..n-1, or labels that are not positions (shuffled, offset, text, repeated)"""
    r = rng.random()
    if r < 0.4:
        return None
    if r < 0.6:
        lab = list(range(nrows))
        rng.shuffle(lab)
        return lab
    if r < 0.75:
        return [10 * i + 5 for i in range(nrows)][::-1]
    if r < 0.9:
        return [f"r{(i * 7) % 5}{i}" for i in range(nrows)]
    return [rng.choice([0, 1, 2]) for _ in range(nrows)]


def set_index(df, c):
    if c.get("index") is not None:
        df.index = pandas.Index(c["index"])
    return df


def history_case(rng):
    mat = rng.choice(HIST_MATS)
    nrows = rng.randint(2, 6)
    cols = gen_frame_cols(rng, mat, nrows)
    ncalls = rng.randint(2, 4)
    calls = []
    for _ in range(ncalls):
        fault = rng.choice([None, None, None, "base", "base", "name", "duplevels"])
        calls.append(gen_call(rng, cols, mat, fault))
    if all(k["fault"] is None for k in calls):
        calls[rng.randrange(ncalls - 1)] = gen_call(rng, cols, mat, "base")
    if rng.random() < 0.5:
        # the shape of the reported miss: a sparse call that fails late, then a valid call of another output type
        i = rng.randrange(ncalls - 1)
        calls[i]["output"] = "sparse"
        if calls[i + 1]["output"] == "sparse":
            calls[i + 1]["output"] = rng.choice(["pandas", "numpy"])
    return dict(kind="history", entry="instance", container="frame", mat=mat, cols=cols, calls=calls, index=gen_index(rng, nrows))


def auto_case(rng):
    """`model_matrix(formula, data, output=...)` without naming a materializer: a pandas frame goes to the pandas
    materializer, a pyarrow table / narwhals frame to the narwhals materializer (`SUPPORTS_INPUT`)"""
    data_kind = rng.choice(["pandas", "arrow", "nwframe"])
    # (a pandas frame with output='narwhals' is refused: `ModelSpec.get_materializer` picks the class from the data alone
    # -- `for_data(data)` without the output -- and the pandas materializer has no such output; that is C05's subject)
    output = rng.choice(["pandas", "numpy", "sparse"] + (["narwhals"] if data_kind != "pandas" else []))
    mat = data_kind
    nrows = rng.randint(1, 5)
    cols = gen_frame_cols(rng, "arrow" if data_kind == "arrow" else mat, nrows)
    call = gen_call(rng, cols, mat, rng.choice([None, None, None, "base"]))
    call["output"] = output
    return dict(kind="history", entry="auto", container="frame", mat=mat, data_kind=data_kind, cols=cols, calls=[call],
                index=gen_index(rng, nrows))


def edge_case(rng, mat=None, shape=None, output=None):
    """corners that random frames rarely hit: a column without any non-null value (no level at all), a single level under
    rank reduction, a formula whose every term emits nothing (a matrix without columns) -- for every route and output"""
    mat = mat or rng.choice(HIST_MATS)
    nrows = rng.randint(1, 4)
    bs = B()
    label = rng.choice([l for l in bs if bs[l][0] in ("text", "categorical")])
    family = bs[label][0]
    shape = shape or rng.choice(["allnull", "single", "empty"])
    t = gen_column(rng, "t", label, family, nrows)
    if shape == "allnull":
        t["vals"] = [None] * nrows
    elif shape == "single":
        v = (t.get("declared") or [x for x in t["vals"] if x is not None] or ["a"])[0]
        t["vals"] = [v] * nrows
        if family == "categorical" and rng.random() < 0.5:
            t["declared"] = [v]
    a = gen_column(rng, "a", "float64", "numeric", nrows, allow_null=False)
    cols = [t, a]
    if shape == "empty":
        terms = [dict(expr="C(t, levels=[])", name="t", isC=True, base=None, levels=[], scale=None)]
        intercept = False
    else:
        terms = [gen_term(rng, t)] + ([gen_term(rng, a)] if rng.random() < 0.5 else [])
        intercept = rng.random() < 0.6
    call = dict(intercept=intercept, efr=rng.random() < 0.8, na=rng.choice(["ignore", "ignore", "drop"]),
                output=output or rng.choice(OUTS_FOR[mat]), terms=terms, fault=None)
    return dict(kind="history", entry="instance", container="frame", mat=mat, cols=cols, calls=[call])


def entry_case(rng):
    """one call through `model_matrix(...)` / a new materializer on a dict of lists, a dict of scalars, a record array or a frame"""
    container = rng.choice(["dict", "dict", "dict_scalar", "recarray", "frame"])
    nrows = 1 if container == "dict_scalar" else rng.randint(1, 5)
    mat = "pandas" if container != "frame" else rng.choice(HIST_MATS)
    cols = gen_frame_cols(rng, mat, nrows, labels=PLAIN_LABELS if container != "frame" else None)
    if container in ("recarray", "dict_scalar"):
        for col in cols:  # a record array has no nulls
            if any(v is None for v in col["vals"]):
                col["vals"] = [("x" if col["family"] == "text" else "0") if v is None else v for v in col["vals"]]
    call = gen_call(rng, cols, mat, rng.choice([None, None, None, "base", "name"]))
    return dict(kind="history", entry=rng.choice(["function", "instance"]), container=container, mat=mat, cols=cols, calls=[call],
                index=gen_index(rng, nrows) if container == "frame" else None)


# ---------------------------------------------------------------- implementation side


def series_of(col):
    if col["family"] == "mixed":
        return pandas.Series([unpv(j) for j in col["py"]], dtype=object)
    return make_series(col)


def build_data(c):
    cols = c["cols"]
    container = c["container"]
    if container == "frame":
        df = set_index(pandas.DataFrame({col["name"]: series_of(col) for col in cols}), c)
        kind = c.get("data_kind", c["mat"])
        if kind == "pandas":
            return df
        if kind == "arrow":
            import pyarrow

            return pyarrow.Table.from_pandas(df, preserve_index=False)
        if kind == "nwframe":
            import narwhals.stable.v1 as nw

            return nw.from_native(df, eager_only=True)
        return df
    py = {col["name"]: [unpv(j) for j in col_py(col)] for col in cols}
    for col in cols:
        if col["label"] == "float64":
            py[col["name"]] = [float("nan") if v is None else v for v in py[col["name"]]]
    if container == "dict":
        return py
    if container == "dict_scalar":
        return {k: v[0] for k, v in py.items()}
    return numpy.rec.fromarrays([numpy.array(py[col["name"]]) for col in cols], names=",".join(col["name"] for col in cols))


def call_formula(k):
    f = " + ".join(scale_text(t["scale"]) + t["expr"] for t in k["terms"])
    return f if k["intercept"] else f + " - 1"


def native_frame(mm):
    w = mm.__wrapped__ if hasattr(mm, "__wrapped__") else mm
    if isinstance(w, pandas.DataFrame):
        return w
    if hasattr(w, "replace_schema_metadata"):
        # (a pyarrow table: without the pandas metadata of the frame it was made from -- pandas cannot parse back the
        # names of some Arrow dtypes, e.g. an ordered dictionary)
        w = w.replace_schema_metadata(None)
    return w.to_pandas()


def observe(mm, output):
    if output == "narwhals":
        df = native_frame(mm)
        names = [str(n) for n in mm.model_spec.column_names]
        cols = [[cell(x) for x in df.iloc[:, j].tolist()] for j in range(df.shape[1])]
        return dict(names=names, shown=[str(x) for x in df.columns], cols=cols, dtypes=[str(dt) for dt in df.dtypes],
                    numeric_dtype=all(pandas.api.types.is_numeric_dtype(dt) and not pandas.api.types.is_bool_dtype(dt) for dt in df.dtypes))
    o = matrix_observable(mm, output)
    if output == "pandas":
        df = mm.__wrapped__ if hasattr(mm, "__wrapped__") else mm
        o["dtypes"] = [str(dt) for dt in df.dtypes]
    else:
        o["dtypes"] = [str(mm.dtype)]
    return o


def materializer_class(c):
    from formulaic.materializers import NarwhalsMaterializer, PandasMaterializer

    return PandasMaterializer if c["mat"] == "pandas" else NarwhalsMaterializer


def run_call(get, k):
    try:
        with warnings.catch_warnings():
            warnings.simplefilter("ignore")
            mm = get(call_formula(k), output=k["output"], na_action=k["na"], ensure_full_rank=k["efr"])
    except Exception as e:
        return {"error": type(e).__name__, "msg": str(e)[:160]}
    return observe(mm, k["output"])


def impl_history(c):
    from formulaic import model_matrix

    try:
        with warnings.catch_warnings():
            warnings.simplefilter("ignore")
            data = build_data(c)
    except Exception as e:
        return {"skip": "input could not be constructed: " + type(e).__name__ + ": " + str(e)[:120]}
    M = materializer_class(c)
    if c["entry"] == "auto":
        # no `materializer=`: FormulaMaterializer.for_data picks the class from the type of the data and the output
        results = [run_call(lambda f, **kw: model_matrix(f, data, **kw), k) for k in c["calls"]]
    elif c["entry"] == "function":
        name = "pandas" if c["mat"] == "pandas" else "narwhals"
        results = [run_call(lambda f, **kw: model_matrix(f, data, materializer=name, **kw), k) for k in c["calls"]]
    else:
        inst = M(data)
        results = [run_call(inst.get_model_matrix, k) for k in c["calls"]]
    fresh = [run_call(M(data).get_model_matrix, k) for k in c["calls"]]
    return dict(results=results, fresh=fresh)


def request_history(c):
    nrows = len(col_py(c["cols"][0]))
    cols = [dict(name=col["name"], dtype=col["label"], declared=col_declared(col), vals=col_py(col)) for col in c["cols"]]
    calls = [dict(intercept=k["intercept"], efr=k["efr"], na=k["na"], output=k["output"],
                  # (the factor's text `expr` is NOT sent: the model writes it from the structure of the factor)
                  terms=[dict(name=t["name"], isC=t["isC"], base=t["base"], levels=t["levels"], scale=t["scale"],
                              custom=t.get("custom"), classArg=bool(t.get("classArg")))
                         for t in k["terms"]]) for k in c["calls"]]
    mat = {"nwframe": "narwhals"}.get(c["mat"], c["mat"])
    return dict(op="history", mat=mat, nrows=nrows, cols=cols, calls=calls)


def agree_history(c, o, m):
    if "results" not in m:
        return f"model answered {str(m)[:200]}"
    if len(m["results"]) != len(o["results"]):
        return "model and implementation ran a different number of calls"
    for i, (k, oc, mc) in enumerate(zip(c["calls"], o["results"], m["results"])):
        if "error" in oc or "error" in mc:
            if oc.get("error") == mc.get("error"):
                continue
            return f"call {i} ({call_formula(k)}, {k['output']}, na={k['na']}): impl {oc.get('error', 'ok')} ({oc.get('msg', '')}) vs model {mc.get('error', 'ok')}"
        mn = [x["name"] for x in mc["columns"]]
        if mn != oc["names"]:
            return f"call {i} ({call_formula(k)}): column names differ: impl {oc['names']} vs model {mn}"
        af = k["output"] in ("numpy", "sparse") and len(mn) > 1
        for mcol, ocol in zip(mc["columns"], oc["cols"]):
            if len(mcol["values"]) != len(ocol) or not all(_same_cell(a, b, af) for a, b in zip(ocol, mcol["values"])):
                return f"call {i} ({call_formula(k)}, {k['output']}): column {mcol['name']}: impl {ocol} vs model {mcol['values']}"
        # dtype(s) of the container: from the generated tables (a matrix without rows is left out: numpy gives an
        # empty literal list the dtype float64 whatever it was meant to hold)
        nrows_out = len(oc["cols"][0]) if oc["cols"] else None
        if nrows_out != 0 and dtype_comparable(c, k):
            if oc.get("dtypes") != mc.get("dtypes"):
                return f"call {i} ({call_formula(k)}, {c['mat']}, {k['output']}, na={k['na']}): dtypes: impl {oc.get('dtypes')} vs model {mc.get('dtypes')}"
    return None


def dtype_comparable(c, k):
    """Is the dtype of this call's matrix a function of the dtype labels alone?  Not when a null survives into a numeric
    column (`na_action='ignore'`/`'raise'` never drop; a float NaN keeps the dtype, anything else does not)."""
    by = {col["name"]: col for col in c["cols"]}
    if c["container"] != "frame":
        return False  # pandas re-infers the dtypes of a dict / record array
    for t in k["terms"]:
        col = by.get(t["name"])
        if col is None or t.get("custom"):
            return False  # (the dtype of `dummies @ contrasts` is the user's: integer or float weights)
        if col["family"] in ("numeric", "bool") and k["na"] != "drop" and any(v is None for v in col_py(col)) and not t["isC"]:
            if col["label"] not in ("float16", "float32", "float64"):
                return False
    return True


# ---------------------------------------------------------------- oracle (implementation only)


def _py_eq(a, b):
    """Python `==` on the JSON forms"""
    return unpv(a) == unpv(b) and (("s" in a) == ("s" in b)) and (("y" in a) == ("y" in b))


def call_rows(c, k):
    """(retained row positions, does a used column hold a null) for call k -- None when a name is unknown"""
    by = {col["name"]: col for col in c["cols"]}
    n = len(col_py(c["cols"][0]))
    used = []
    for t in k["terms"]:
        if t["name"] not in by:
            return None, None
        used.append(col_py(by[t["name"]]))
    nulls = [any(u[i] is None for u in used) for i in range(n)]
    keep = [i for i in range(n) if not nulls[i]] if k["na"] == "drop" else list(range(n))
    return keep, any(nulls)


def expected_valid(c, k):
    """must this call succeed?  (None: the property text does not say)"""
    keep, has_null = call_rows(c, k)
    if keep is None:
        return None
    if k["na"] == "raise" and has_null:
        return False
    by = {col["name"]: col for col in c["cols"]}
    for t in k["terms"]:
        if not t["isC"]:
            continue
        if t["levels"] is not None:
            lv = t["levels"]
            if any(_py_eq(a, b) for i, a in enumerate(lv) for b in lv[i + 1:]):
                return None
        elif by[t["name"]]["family"] == "categorical":
            lv = col_declared(by[t["name"]])
        else:
            lv = [v for i, v in enumerate(col_py(by[t["name"]])) if i in keep and v is not None]
        if t["base"] is not None and not any(_py_eq(t["base"], l) for l in lv):
            return None
        if t.get("custom"):
            distinct = []
            for v in lv:
                if not any(_py_eq(v, w) for w in distinct):
                    distinct.append(v)
            shape = custom_shape(t["custom"])
            if shape is None or (distinct and shape[0] != len(distinct)):
                return None  # weights that are not rectangular / written for another number of levels
    return True


def custom_shape(cu):
    """(number of levels, number of contrasts) of user-given contrasts, None when the weights are ragged"""
    if "matrix" in cu:
        rows = cu["matrix"]
        if not rows:
            return None
        return (len(rows), len(rows[0])) if all(len(r) == len(rows[0]) for r in rows) else None
    ents = cu["dict"]
    if not ents or any(len(w) != len(ents[0][1]) for _, w in ents):
        return None
    return (len(ents[0][1]), len(ents))


def custom_weight(cu, j, c):
    return Fraction(cu["matrix"][j][c]) if "matrix" in cu else Fraction(cu["dict"][c][1][j])


def oracle_call(c, k, r):
    """the structure the property text requires of one successful call"""
    by = {col["name"]: col for col in c["cols"]}
    keep, _ = call_rows(c, k)
    names, cols = r["names"], r["cols"]
    for name, col in zip(names, cols):
        for x in col:
            if isinstance(x, dict) and "s" in x:
                return f"cell {x['s']!r} of column {name!r} is not a number"
    if r["shown"] != names:
        return f"the matrix shows columns {r['shown']} but the spec names {names}"

    def colvals(j):
        return [("1" if x["b"] else "0") if isinstance(x, dict) else x for x in cols[j]]

    pos = 0
    if k["intercept"]:
        if not names or names[0] != "Intercept":
            return f"first column is {names[:1]}, expected Intercept"
        if any(x == "nan" or Fraction(x) != 1 for x in colvals(0)) or len(cols[0]) != len(keep):
            return f"Intercept column is {cols[0]} for {len(keep)} retained rows"
        pos = 1
    af = k["output"] in ("numpy", "sparse") and len(names) > 1
    for t in k["terms"]:
        col = by[t["name"]]
        vals = [col_py(col)[i] for i in keep]
        sc = Fraction(1) if t["scale"] is None else Fraction(next(iter(t["scale"].values())))
        categorical = t["isC"] or col["family"] in ("text", "categorical", "mixed")
        if categorical:
            emitted = []
            while pos < len(names) and names[pos].startswith(t["expr"] + "["):
                emitted.append(pos)
                pos += 1
            got = [names[j][len(t["expr"]) + 1:-1] for j in emitted]
            # level order required by the property text: sorted for text, declared for a categorical dtype / levels=
            if t["levels"] is not None:
                want = list(t["levels"])
            elif col["family"] == "categorical":
                want = col_declared(col)
            elif col["family"] == "text":
                tag = "y" if col["label"] in BINARY_LABELS else "s"
                want = [{tag: s} for s in sorted({v[tag] for v in vals if v is not None})]
            else:
                want = None  # object column of mixed scalars, C(numeric column): the property text gives no order
            if t.get("custom"):
                # user-given contrasts: every emitted cell is the weight the user wrote for the row's level (0 for a null)
                shape = custom_shape(t["custom"])
                if got and want is not None and shape is not None:
                    if len(got) != shape[1]:
                        return f"term {t['expr']} emits {len(got)} columns for {shape[1]} contrasts"
                    for cidx, j in enumerate(emitted):
                        exp = []
                        for v in vals:
                            hit = None if v is None else next((i for i, l in enumerate(want) if _py_eq(v, l)), None)
                            exp.append(Fraction(0) if hit is None else sc * custom_weight(t["custom"], hit, cidx))
                        gotv = [None if x == "nan" else Fraction(x) for x in colvals(j)]
                        if len(gotv) != len(exp) or not all(g is not None and (g == w or g == float_image(w)) for g, w in zip(gotv, exp)):
                            return f"column {names[j]} is {cols[j]}; the weights of the rows' levels are {[fstr(x) for x in exp]}"
                continue
            if want is not None:
                labels = [str(unpv(l)) for l in want]
                if t["base"] is None:
                    rest = want[1:]
                else:
                    rest = [l for l in want if not _py_eq(l, t["base"])]
                if got == labels:
                    levels_of_cols = want
                elif got == ["T." + str(unpv(l)) for l in rest] and (len(rest) < len(want) or not want):
                    levels_of_cols = rest
                else:
                    kind = "sorted" if (col["family"] == "text" and t["levels"] is None) else "declared"
                    return (f"term {t['expr']} ({col['label']}) is encoded as {got}; with levels in {kind} order {labels} the indicator "
                            f"columns must be one per level, or (reduced) all but the base level with a T. prefix, in that order")
            else:
                present = []
                for v in vals:
                    if v is not None and not any(_py_eq(v, w) for w in present):
                        present.append(v)
                levels_of_cols = []
                for g in got:
                    cand = [w for w in present if str(unpv(w)) == g or "T." + str(unpv(w)) == g]
                    if not cand:
                        return f"column {t['expr']}[{g}] is not named after a value of the column (values: {[unpv(w) for w in present]})"
                    levels_of_cols.append(cand[0])
                if len({canon_pv(l) for l in levels_of_cols}) != len(got):
                    return f"term {t['expr']} has repeated level columns {got}"
            for j, lv in zip(emitted, levels_of_cols):
                ind = [sc if (v is not None and _py_eq(v, lv)) else Fraction(0) for v in vals]
                gotv = [None if x == "nan" else Fraction(x) for x in colvals(j)]
                if gotv != ind:
                    return (f"column {names[j]} is {cols[j]}; {scale_text(t['scale'])}indicator of level {unpv(lv)!r} on the retained "
                            f"rows is {[fstr(x) for x in ind]}")
        else:
            if pos >= len(names) or names[pos] != t["expr"]:
                return f"{col['family']} column {t['name']} ({col['label']}) must pass through under its own name; columns are {names}"
            want = [None if v is None else sc * (Fraction(int(v["b"])) if "b" in v else Fraction(next(iter(v.values())))) for v in vals]
            gotv = [None if x == "nan" else Fraction(x) for x in colvals(pos)]
            exact = t["scale"] is None or "i" in t["scale"]

            def unchanged(g, w):
                if g is None or w is None:
                    return g is None and w is None
                return g == w or ((af or not exact) and g == float_image(w))

            if len(gotv) != len(want) or not all(unchanged(g, w) for g, w in zip(gotv, want)):
                return (f"numeric column {t['name']} ({col['label']}) comes out as {cols[pos]}; {scale_text(t['scale'])}input values are "
                        f"{[None if w is None else fstr(w) for w in want]}")
            pos += 1
    if pos != len(names):
        return f"unexpected extra columns {names[pos:]}"
    return None


def is_numeric_dtype_name(d):
    d = d.lower()
    return d.startswith(("int", "uint", "float", "double")) and "object" not in d


def strip_msg(r):
    return {k: v for k, v in r.items() if k != "msg"}


def oracle_history(c, o):
    for i, (k, r, f) in enumerate(zip(c["calls"], o["results"], o["fresh"])):
        where = f"call {i} of {len(c['calls'])} on one {c['mat']} materializer ({call_formula(k)}, output={k['output']}, na_action={k['na']})"
        if "error" not in r:
            for name, col in zip(r["names"], r["cols"]):
                for x in col:
                    if isinstance(x, dict) and "s" in x:
                        return f"{where}: cell {x['s']!r} of column {name!r} is not a number"
            bad = [d for d in r.get("dtypes", []) if not is_numeric_dtype_name(d)]
            if bad and dtype_comparable(c, k):
                return (f"{where}: the matrix is not numeric: its dtype(s) {r.get('dtypes')} include {bad[0]!r} "
                        f"(an integer or floating-point dtype is required of every column / of the array)")
        if canonical_obs(strip_msg(r)) != canonical_obs(strip_msg(f)):
            return f"{where}: the reused object returns {str(strip_msg(r))[:300]}, a new materializer returns {str(strip_msg(f))[:300]}"
        ev = expected_valid(c, k)
        if ev is True and "error" in r:
            return f"{where}: a valid request fails with {r['error']}: {r.get('msg', '')}"
        if ev is False and "error" not in r:
            return f"{where}: na_action='raise' with a null present did not raise"
        if "error" not in r and ev is not None:
            why = oracle_call(c, k, r)
            if why:
                return f"{where}: {why}"
    return None


def canonical_obs(x):
    import json

    return json.dumps(x, sort_keys=True)


# ---------------------------------------------------------------- levels2: level inference over Python scalars

LEVEL_POOLS = MIXED_POOLS + [
    ["a", "b", "B", "é", "10", "9", "__x", "T.b", "[z]", "a b"],
    [1, 2, 3, 10, -1, 2**63, -(2**63) - 1],
    [True, False],
    [1.5, -0.25, 2.0, 0.5, 100.0, -3.0, 0.125],
    [b"a", b"b", b"ab", b"B"],
]


def levels2_case(rng):
    pool = rng.choice(LEVEL_POOLS)
    n = rng.randint(0, 9)
    vals = [None if rng.random() < 0.15 else rng.choice(pool) for _ in range(n)]
    declared = None
    if rng.random() < 0.3:
        declared = rng.sample(pool, rng.randint(1, min(4, len(pool))))
        if isinstance(pool[0], float) or {bool, int} <= {type(x) for x in pool}:
            declared = None  # (pandas matches values to nominated categories by typed rules: True is not the category 1)
    return dict(kind="levels2", vals=[pv(v) for v in vals], declared=None if declared is None else [pv(v) for v in declared],
                output=rng.choice(OUTPUTS + ["narwhals"]) if rng.random() < 0.95 else "bogus",
                homogeneous_float=bool(pool and isinstance(pool[0], float)), drop_first=rng.random() < 0.5)


def impl_levels2(c):
    from formulaic.model_spec import ModelSpec
    from formulaic.transforms.contrasts import encode_contrasts

    vals = [unpv(v) for v in c["vals"]]
    if c["homogeneous_float"]:
        data = pandas.Series([float("nan") if v is None else v for v in vals], dtype="float64")
    else:
        data = pandas.Series(vals, dtype=object)
    state = {}
    spec = ModelSpec(formula=[], output=c["output"])
    try:
        with warnings.catch_warnings():
            warnings.simplefilter("ignore")
            enc = encode_contrasts(data, levels=None if c["declared"] is None else [unpv(v) for v in c["declared"]],
                                   reduced_rank=False, _state=state, _spec=spec)
    except Exception as e:
        return {"error": type(e).__name__, "msg": str(e)[:200]}
    w = enc.__wrapped__ if hasattr(enc, "__wrapped__") else enc
    arr = w.toarray() if hasattr(w, "toarray") else numpy.asarray(w)
    codes = []
    for i in range(arr.shape[0]):
        ones = [j for j in range(arr.shape[1]) if arr[i, j] != 0]
        codes.append(ones[0] if len(ones) == 1 else (None if not ones else "many"))
    cats = list(state["categories"])
    out = {"levels": [pv(x) for x in cats], "labels": ["{field}".format(field=x) for x in cats], "codes": codes}
    # the sparse dummy encoder called directly (its `drop_first` option is not used by the library itself)
    from formulaic.utils.sparse import categorical_encode_series_to_sparse_csc_matrix

    try:
        with warnings.catch_warnings():
            warnings.simplefilter("ignore")
            lv, mat = categorical_encode_series_to_sparse_csc_matrix(
                data, levels=None if c["declared"] is None else [unpv(v) for v in c["declared"]], drop_first=c["drop_first"])
        arr = mat.toarray()
        sc = []
        for i in range(arr.shape[0]):
            ones = [j for j in range(arr.shape[1]) if arr[i, j] != 0]
            sc.append(ones[0] if len(ones) == 1 else (None if not ones else "many"))
        out["sparse_levels"] = [pv(x) for x in lv]
        out["sparse_codes"] = sc
        out["sparse_shape"] = list(arr.shape)
    except Exception as e:
        out["sparse_error"] = type(e).__name__
    return out


def agree_levels2(c, o, m):
    if "error" in o or "error" in m:
        if o.get("error") == m.get("error"):
            return None
        return f"encode_contrasts: impl {o.get('error', 'ok')} ({o.get('msg', '')}) vs model {m.get('error', 'ok')}"
    if [canon_pv(x) for x in o["levels"]] != [canon_pv(x) for x in m.get("levels", [])]:
        return f"levels differ: impl {o['levels']} vs model {m.get('levels')}"
    if o["labels"] != m.get("labels"):
        return f"labels differ: impl {o['labels']} vs model {m.get('labels')}"
    if o["codes"] != m.get("codes"):
        return f"codes differ: impl {o['codes']} vs model {m.get('codes')}"
    if "sparse_error" in o:
        return f"the sparse dummy encoder raised {o['sparse_error']}"
    if [canon_pv(x) for x in o["sparse_levels"]] != [canon_pv(x) for x in m.get("sparse_levels", [])] or o["sparse_codes"] != m.get("sparse_codes"):
        return (f"sparse dummy encoder (drop_first={c['drop_first']}): impl levels {o['sparse_levels']} codes {o['sparse_codes']} vs "
                f"model levels {m.get('sparse_levels')} codes {m.get('sparse_codes')}")
    if o["sparse_shape"] != [len(c["vals"]), len(o["sparse_levels"])]:
        return f"sparse dummy matrix has shape {o['sparse_shape']} for {len(c['vals'])} rows and {len(o['sparse_levels'])} levels"
    return None


def oracle_levels2(c, o):
    d = c["declared"]
    if d is not None and any(_py_eq(a, b) for i, a in enumerate(d) for b in d[i + 1:]):
        return None  # a repeated declared level: the property text does not say what happens
    if c["output"] == "bogus":
        return None if "error" in o else "an unknown output type was accepted"
    if "error" in o:
        return f"encode_contrasts raised {o['error']}: {o.get('msg')}"
    present = [v for v in c["vals"] if v is not None]
    lv = o["levels"]
    if c["declared"] is not None:
        if [canon_pv(x) for x in lv] != [canon_pv(x) for x in c["declared"]]:
            return f"levels {lv}; the declared levels are {c['declared']}"
    elif all("s" in v for v in present):
        want = sorted({v["s"] for v in present})
        if [x.get("s") for x in lv] != want:
            return f"levels {lv}; the sorted distinct text values are {want}"
    else:
        for v in present:
            if sum(1 for l in lv if _py_eq(v, l)) != 1:
                return f"value {unpv(v)!r} equals {sum(1 for l in lv if _py_eq(v, l))} of the levels {[unpv(l) for l in lv]}"
        for l in lv:
            if not any(_py_eq(v, l) for v in present):
                return f"level {unpv(l)!r} is not a value of the column"
    for v, code in zip(c["vals"], o["codes"]):
        want = None
        if v is not None:
            hits = [j for j, l in enumerate(lv) if _py_eq(v, l)]
            want = hits[0] if hits else None
        if code != want:
            return f"row value {None if v is None else unpv(v)!r} is coded as level {code}, expected {want} (levels {[unpv(l) for l in lv]})"
    # the sparse dummy encoder called directly: the same levels (all but the first with drop_first), one indicator column each
    if "sparse_error" in o:
        return f"the sparse dummy encoder raised {o['sparse_error']}"
    slv = lv[1:] if c["drop_first"] else lv
    if [canon_pv(x) for x in o["sparse_levels"]] != [canon_pv(x) for x in slv]:
        return f"sparse dummy encoder (drop_first={c['drop_first']}) reports the levels {o['sparse_levels']}; the levels are {lv}"
    for v, code in zip(c["vals"], o["sparse_codes"]):
        hits = [] if v is None else [j for j, l in enumerate(slv) if _py_eq(v, l)]
        if code != (hits[0] if hits else None):
            return (f"sparse dummy encoder (drop_first={c['drop_first']}): row value {None if v is None else unpv(v)!r} has its 1 in "
                    f"column {code}, expected {hits[0] if hits else None} (columns {[unpv(l) for l in slv]})")
    return None


# ---------------------------------------------------------------- apply: `TreatmentContrasts.apply` called directly


def apply_case(rng):
    """`contr.treatment(base=...).apply(dummies, levels, reduced_rank, output=None)`: the output type is inferred from the
    container of the dummy columns (a pandas frame, a numpy array, a sparse matrix)"""
    pool = rng.choice([["a", "b", "c", "T.b", "__x"], [1, 2, 3, 10], [True, False], ["x", 1, 2]])
    k = rng.randint(0, min(4, len(pool)))
    levels = rng.sample(pool, k)
    n = rng.randint(0, 5)
    codes = [None if (not levels or rng.random() < 0.2) else rng.randrange(len(levels)) for _ in range(n)]
    base = None
    r = rng.random()
    if r < 0.3 and levels:
        base = rng.choice(levels)
    elif r < 0.45:
        base = "nope"
    return dict(kind="apply", levels=[pv(x) for x in levels], codes=codes, base=pv(base), reduced=rng.random() < 0.5,
                container=rng.choice(["pandas", "numpy", "sparse"]), explicit=rng.random() < 0.3)


def impl_apply(c):
    import scipy.sparse

    from formulaic.transforms.contrasts import TreatmentContrasts

    levels = [unpv(x) for x in c["levels"]]
    arr = numpy.zeros((len(c["codes"]), len(levels)), dtype=float)
    for i, code in enumerate(c["codes"]):
        if code is not None:
            arr[i, code] = 1
    if c["container"] == "pandas":
        dummies = pandas.DataFrame(arr, columns=pandas.Index(levels, dtype=object) if levels else None)
    elif c["container"] == "numpy":
        dummies = arr
    else:
        dummies = scipy.sparse.csc_matrix(arr)
    contr = TreatmentContrasts() if c["base"] is None else TreatmentContrasts(base=unpv(c["base"]))
    try:
        with warnings.catch_warnings():
            warnings.simplefilter("ignore")
            enc = contr.apply(dummies, levels=levels, reduced_rank=c["reduced"], output=c["container"] if c["explicit"] else None)
    except Exception as e:
        return {"error": type(e).__name__, "msg": str(e)[:160]}
    names = [str(x) for x in enc.__formulaic_metadata__.column_names]
    w = enc.__wrapped__
    out = w.toarray() if hasattr(w, "toarray") else numpy.asarray(w)
    return dict(names=names, cols=[[cell(x) for x in out[:, j].tolist()] for j in range(out.shape[1])], container=type(w).__name__)


def oracle_apply(c, o):
    levels = c["levels"]
    if c["base"] is not None and not any(_py_eq(c["base"], l) for l in levels):
        return None  # no base to compare with: the property text does not say
    if "error" in o:
        return f"apply raised {o['error']}: {o.get('msg')}"
    for name, col in zip(o["names"], o["cols"]):
        for x in col:
            if isinstance(x, dict) and "s" in x:
                return f"cell {x['s']!r} of column {name!r} is not a number"
    want_container = {"pandas": "DataFrame", "numpy": "ndarray", "sparse": "csc_matrix"}[c["container"]]
    if o["container"] != want_container and not o["container"].startswith("cs"):
        return f"dummy columns given as {c['container']} come back as {o['container']}"
    return None


def is_f1(r):
    return r.get("error") == "TypeError" and "numpy.ndarray" in r.get("msg", "") and "Unsupported dataframe type" in r.get("msg", "")


def classify(c, o, why):
    """C08-F1: output='narwhals' and a matrix without any column -> TypeError from narwhals.from_native (see known_findings.json).
    Only when that is the ONLY thing wrong: every failing call is of that shape, and a new materializer fails alike."""
    if c.get("kind") != "history" or "results" not in o:
        return None
    hits = [i for i, (k, r, f) in enumerate(zip(c["calls"], o["results"], o["fresh"]))
            if k["output"] == "narwhals" and is_f1(r) and is_f1(f)]
    if not hits:
        return None
    # re-run the oracle with those calls taken out: nothing else may be wrong
    rest = [i for i in range(len(c["calls"])) if i not in hits]
    c2 = dict(c, calls=[c["calls"][i] for i in rest])
    o2 = dict(results=[o["results"][i] for i in rest], fresh=[o["fresh"][i] for i in rest])
    return "C08-F1" if oracle_history(c2, o2) is None else None


LEVEL_TEXT = (
    "Proof: Lean theorems (Props/C08.lean, 42 obligations). Decided over tables regenerated on every run from the live package: "
    "every text and categorical dtype (incl. pandas' Arrow-backed dictionary, binary and view dtypes) is CATEGORICAL and every "
    "numeric/bool dtype NUMERICAL for both materializers (narwhals on pandas and on pyarrow input); the dtype of the returned matrix is an integer or floating-point dtype for every dtype label x "
    "route x output, under a literal scale, for the intercept and for any two columns stacked; the live column-name templates "
    "are the modelled ones for all names; the registered output types are the four modelled. Proved for ALL inputs: the level "
    "list inferred from any column of Python scalars is duplicate-free, covers exactly the non-null values, is represented by "
    "first occurrences, is sorted (non-text then text, each strictly increasing) whenever Python can sort and in first-seen "
    "order exactly when it cannot (the comparison sort is a modelled insertion sort that fails iff an unorderable pair exists); "
    "for text it is THE strictly sorted list of the distinct strings; declared categories are used in declared order; every "
    "dummy column is the indicator of its level; treatment coding drops exactly the base column and fails iff the base is no "
    "level; user-given contrast columns hold the user's weights; numeric columns pass through; a literal scales every cell; the "
    "intercept is ones. For ANY history of valid and failing calls on one materializer object, from any cache content, every "
    "call returns what a new object returns, which is the cache-free reference of that call, and every cell of every returned "
    "matrix is a number and every reported dtype numeric. The models are tied to the code by differential correspondence on "
    "every run (names, exact values, dtypes, error classes; every dtype x output x route; histories on one object)."
)
LEVEL_NOTE = (
    "Trusted: Lean kernel + propext/Classical.choice/Quot.sound; the dtype probe list; the hand models of kind inference -> "
    "level discovery -> coding -> assembly for main-effects formulas, validated by correspondence; pandas' factorize/sort/"
    "Categorical/get_dummies, numpy/scipy/pandas type promotion and the narwhals/pyarrow conversions are modelled or tabulated "
    "and observed, not proved."
)
