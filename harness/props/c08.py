"""C08 — Text and categorical columns are dummy-coded; the matrix is always numeric.

Tie between model and source
* the kind table `Gen.kindTable` is regenerated on every run from the live `_is_categorical` of the
  pandas materializer, the narwhals materializer on a pandas frame and the narwhals materializer on a
  pyarrow table, applied to one probe series per dtype (`harness/translate.py: dtype_builders`);
  `Props.C08.text_and_categorical_are_categorical` / `numeric_is_numerical` are decided over it.
* correspondence stream `dtypes` (engine `c08`, model `Model/Encode.lean`): for every dtype constructor
  available a frame with such a column (plus a float column, sometimes more columns of other dtypes),
  the real `model_matrix("A + a", frame, output=…, materializer=…)` for each output x materializer
  (pandas; narwhals on the pandas frame; narwhals on the pyarrow table) against `Model.Encode.build`
  run on the same values and the generated table: column names and exact cell values.
* stream `levels`: `encode_contrasts` level discovery on random value lists against `Model.Encode.levels`.

Oracle (implementation only, straight from the property text): the materialisation succeeds; every
cell is a number; a text column yields one indicator column per
level with the levels in sorted (code-point) order, a categorical-dtype column in declared order
(all levels or all but the first, depending on rank reduction, which is C03's concern); every
indicator column is 1 exactly on the rows holding its level; numeric and bool columns come out
unchanged under their own name; the intercept is a column of ones.
"""
from __future__ import annotations

import math
import numbers
import warnings
from fractions import Fraction

import numpy
import pandas

from harness import translate

PROPERTY = "C08"
ENGINE = "c08"
REQUIRED_THEOREMS = [
    "text_and_categorical_are_categorical",
    "numeric_is_numerical",
    "levels_sorted",
    "levels_declared",
    "dummy_names",
    "dummy_is_indicator",
    "text_column_encoding",
    "categorical_column_encoding",
    "numeric_passthrough",
    "cells_numeric",
    "cells_numeric_live",
]
TRUSTED = [
    "modelled, not verified: pandas' `astype('category')` / `pandas.Categorical` (level discovery and its sorting), "
    "`pandas.get_dummies`, narwhals' and pyarrow's dtype mapping and conversions (`Series.to_pandas`, `Table.from_pandas`); "
    "they are observed through the correspondence, not proved",
    "the dtype probe list of harness/translate.py (`dtype_builders`): the kind theorems quantify over exactly the dtypes "
    "listed there (every constructor that works with the installed pandas/pyarrow)",
    "rank reduction is modelled only for main-effects formulas (a categorical main effect is reduced iff the intercept or an "
    "earlier categorical main effect is present); the general rule is property C03",
]
ASSUMPTIONS = [
    "'numeric columns pass through unchanged' is checked on exact values (integers as Python ints, never via float "
    "text): with output='pandas' (one dtype per column) and for a matrix with a single column every cell must equal "
    "its input exactly; in a numpy array / sparse matrix with several columns a cell may instead hold the float64 image "
    "of its input, because such a container has ONE dtype for all columns and stacking an integer column with the "
    "intercept, a float column or a sparse dummy column necessarily yields float64 — that rounding is the container's "
    "(numpy/scipy type promotion), not a change made by the library",
    "cells_numeric is stated for the model's `build` under the hypothesis `TableOK` (text and categorical dtypes classified "
    "CATEGORICAL); `cells_numeric_live` discharges the hypothesis for the generated table of the current tree",
    "category labels are compared by their printed form (`str(level)`), text values are Python `str` (mixed-type object "
    "columns are outside the model)",
    "na_action='ignore' is exercised only where a null is a float NaN or a text/categorical null (nullable extension "
    "dtypes hand back `pandas.NA` objects under 'ignore'; that is the caller's request, not an encoding matter)",
]
RULE = (
    "dtypes: every dtype label of translate.dtype_builders x {pandas, narwhals on pandas, narwhals on pyarrow} x "
    "{pandas, numpy, sparse} with formula `A + a` (A of the dtype under test, a float64), random values (1-6 rows; text from a "
    "pool with upper/lower case, digits, non-ASCII, spaces; categorical with random declared order and unused categories; "
    "nulls where the dtype can hold them; integer columns of every width hold the extremes of their dtype and the "
    "neighbours of +-2**53), the same for every integer dtype standing alone (`0 + n`, both rank settings), plus random frames of 1-3 columns of random dtypes with intercept on/off, "
    "ensure_full_rank on/off, na_action drop/raise/ignore; levels: random value lists with/without declared levels. "
    "non-trivial = a text or categorical column with at least two distinct values; distinct by canonical JSON"
)

MATS = ["pandas", "narwhals", "arrow"]
OUTPUTS = ["pandas", "numpy", "sparse"]
# the last four look like names the library uses internally (reserved `__…` dictionary keys, the `T.` prefix and the
# brackets of generated column labels): a level may be called anything
TEXT_POOL = ["a", "b", "c", "B", "Z", "aa", "a b", "10", "9", "é", "x-y", "zeta", "Alpha", "_u", "__x", "__kind__", "T.b", "[z]"]
CAT_POOL = ["lo", "mid", "hi", "top", "a", "b", "c", "Z", "__x", "__kind__", "T.b", "[z]"]


def fstr(x) -> str:
    fr = Fraction(x)
    return str(fr.numerator) if fr.denominator == 1 else f"{fr.numerator}/{fr.denominator}"


def builders():
    return {label: (family, build) for label, family, build in translate.dtype_builders()}


_B = None


def B():
    global _B
    if _B is None:
        _B = builders()
    return _B


def nullable(label, family):
    if family in ("text", "categorical"):
        return True
    if label in ("bool",) or (label[0] in "iu" and "[" not in label):
        return False
    return True


# ----------------------------------------------------------------------------- generators


def int_bounds(label):
    """(min, max) of an integer dtype label (`int8`, `UInt64`, `int64[pyarrow]`, ...)"""
    base = label.split("[")[0].lower()
    bits = int("".join(ch for ch in base if ch.isdigit()))
    return (0, 2**bits - 1) if base.startswith("u") else (-(2 ** (bits - 1)), 2 ** (bits - 1) - 1)


def int_pool(label):
    """[min, max, ...]: extremes of the dtype, their neighbours, and the integers around +-2**53 that fit"""
    lo, hi = int_bounds(label)
    cands = [lo, hi, lo + 1, hi - 1, 2**53 + 1, -(2**53) - 1, 2**53 - 1, 2**53, 2**53 + 3, -(2**53) - 3, 2**62 + 1, 0, 1]
    out = []
    for v in cands:
        if lo <= v <= hi and v not in out:
            out.append(v)
    return out


def gen_column(rng, name, label, family, nrows, allow_null=True):
    """column description: {name,label,family,vals,(declared)}; numeric vals are 'p/q' strings"""
    null_p = 0.15 if (allow_null and nullable(label, family) and rng.random() < 0.5) else 0.0

    def maybe(v):
        return None if rng.random() < null_p else v

    col = dict(name=name, label=label, family=family)
    if family == "text":
        k = rng.randint(1, 4)
        pool = rng.sample(TEXT_POOL, k)
        col["vals"] = [maybe(rng.choice(pool)) for _ in range(nrows)]
    elif family == "categorical":
        k = rng.randint(1, 4)
        if label == "category[int]":
            pool = rng.sample([1, 2, 3, 10, 20, -1], k)
        else:
            pool = rng.sample(CAT_POOL, k)
        rng.shuffle(pool)
        used = pool if rng.random() < 0.6 else pool[: max(1, k - 1)]  # leave a declared category unused
        col["declared"] = pool
        col["vals"] = [maybe(rng.choice(used)) for _ in range(nrows)]
    elif family == "numeric":
        if label.lower().startswith(("float", "double")):
            small = "16" in label
            col["vals"] = [maybe(fstr(Fraction(rng.randint(-12, 12), 1 if small else rng.choice([1, 2, 4])))) for _ in range(nrows)]
        else:
            # integers: small values mixed with the extremes of the dtype and the neighbours of 2**53 (the first
            # integers a float64 cannot hold), so that "unchanged" is tested on values that do not survive a detour
            # through floating point
            pool = int_pool(label)
            extreme = rng.random() < 0.7
            vals = [rng.choice(pool) if (extreme and rng.random() < 0.6) else rng.randint(max(pool[0], -5), 9) for _ in range(nrows)]
            if extreme and nrows:
                vals[rng.randrange(nrows)] = rng.choice(pool[:2] + [v for v in pool if abs(v) > 2**53][:4])
            col["vals"] = [maybe(fstr(v)) for v in vals]
    else:
        col["vals"] = [maybe(rng.random() < 0.5) for _ in range(nrows)]
    return col


def base_case(rng, label, family, mat, output):
    nrows = rng.randint(1, 6)
    a = gen_column(rng, "a", "float64", "numeric", nrows, allow_null=rng.random() < 0.3)
    A = gen_column(rng, "A", label, family, nrows)
    return dict(kind="dtypes", cols=[A, a], intercept=True, efr=True, na="drop", mat=mat, output=output)


def alone_case(rng, label, mat, output, efr):
    """`0 + n`: an integer column on its own (the matrix keeps the integer dtype for every output type)"""
    nrows = rng.randint(1, 5)
    n = gen_column(rng, "n", label, "numeric", nrows, allow_null=False)
    return dict(kind="dtypes", cols=[n], intercept=False, efr=efr, na="drop", mat=mat, output=output)


def is_int_label(label, family):
    return family == "numeric" and not label.lower().startswith(("float", "double"))


def random_case(rng):
    bs = B()
    labels = sorted(bs)
    nrows = rng.randint(1, 6)
    ncol = rng.randint(1, 3)
    na = rng.choice(["drop", "drop", "drop", "raise", "ignore"])
    cols = []
    for name in ["A", "B", "t"][:ncol]:
        label = rng.choice(labels)
        family = bs[label][0]
        allow_null = na != "ignore" or family in ("text", "categorical") or label in ("float32", "float64")
        cols.append(gen_column(rng, name, label, family, nrows, allow_null=allow_null))
    return dict(kind="dtypes", cols=cols, intercept=rng.random() < 0.7, efr=rng.random() < 0.7, na=na,
                mat=rng.choice(MATS), output=rng.choice(OUTPUTS))


def levels_case(rng):
    n = rng.randint(0, 8)
    pool = rng.sample(TEXT_POOL, rng.randint(1, 6))
    vals = [None if rng.random() < 0.15 else rng.choice(pool) for _ in range(n)]
    declared = None
    if rng.random() < 0.4:
        declared = rng.sample(pool, rng.randint(1, len(pool)))
    return dict(kind="levels", vals=vals, declared=declared, dtype=rng.choice(["object", "str", "category"]),
                output=rng.choice(OUTPUTS))


def cases(rng, tier):
    bs = B()
    reps = {"quick": 1, "thorough": 8, "search": 1}[tier]
    combos = [(label, mat, out) for label in bs for mat in MATS for out in OUTPUTS]
    if tier == "search":
        rng.shuffle(combos)
    for _ in range(reps):
        for label, mat, out in combos:
            yield base_case(rng, label, bs[label][0], mat, out)
        for label, mat, out in combos:
            if is_int_label(label, bs[label][0]):
                for efr in (True, False):
                    yield alone_case(rng, label, mat, out, efr)
    for _ in range({"quick": 300, "thorough": 4000, "search": 150}[tier]):
        yield random_case(rng)
    for _ in range({"quick": 150, "thorough": 1500, "search": 0}[tier]):
        yield levels_case(rng)


def describe(c):
    if c["kind"] == "levels":
        return "levels"
    if len(c["cols"]) == 1 and c["cols"][0]["name"] == "n":
        return f"alone,{c['cols'][0]['label']},{c['mat']},{c['output']},efr={int(c['efr'])}"
    return f"{c['cols'][0]['label']},{c['mat']},{c['output']}" if len(c["cols"]) == 2 and c["cols"][1]["name"] == "a" else f"random,{c['mat']},{c['output']},na={c['na']}"


def nontrivial(c):
    if c["kind"] == "levels":
        return len({v for v in c["vals"] if v is not None}) >= 2
    return any(col["family"] in ("text", "categorical") and len({v for v in col["vals"] if v is not None}) >= 2 for col in c["cols"])


# ----------------------------------------------------------------------------- impl


def make_series(col):
    family, build = B()[col["label"]]
    vals = col["vals"]
    if family == "numeric":
        conv = float if col["label"].lower().startswith(("float", "double")) else int
        vals = [None if v is None else conv(Fraction(v)) for v in vals]
    with warnings.catch_warnings():
        warnings.simplefilter("ignore")
        if family == "categorical":
            return build(vals, categories=col.get("declared"))
        return build(vals)


def make_frame(c):
    return pandas.DataFrame({col["name"]: make_series(col) for col in c["cols"]})


def formula_of(c):
    f = " + ".join(col["name"] for col in c["cols"])
    return f if c["intercept"] else f + " - 1"


def cell(x):
    """canonical cell: 'p/q' | 'nan' | {'s': repr-ish} (the latter is NOT a number)"""
    if isinstance(x, (bool, numpy.bool_)):
        return {"b": bool(x)}
    if isinstance(x, numbers.Number) or isinstance(x, numpy.number):
        try:
            if math.isnan(x):
                return "nan"
            return fstr(Fraction(x))
        except Exception:
            return {"s": repr(x)}
    return {"s": str(x)}


def matrix_observable(mm, output):
    names = [str(n) for n in mm.model_spec.column_names]
    if output == "pandas":
        df = mm.__wrapped__ if hasattr(mm, "__wrapped__") else mm
        cols = [[cell(x) for x in df.iloc[:, j].tolist()] for j in range(df.shape[1])]
        numeric = all(pandas.api.types.is_numeric_dtype(dt) and not pandas.api.types.is_bool_dtype(dt) for dt in df.dtypes)
        shown = [str(x) for x in df.columns]
    else:
        arr = mm.toarray() if hasattr(mm, "toarray") else numpy.asarray(mm)
        arr = numpy.asarray(arr)
        cols = [[cell(x) for x in arr[:, j].tolist()] for j in range(arr.shape[1])] if arr.ndim == 2 else []
        numeric = arr.dtype.kind in "iuf"
        shown = names
    return dict(names=names, shown=shown, cols=cols, numeric_dtype=bool(numeric))


def impl_dtypes(c):
    from formulaic import model_matrix

    try:
        df = make_frame(c)
        data = df
        if c["mat"] == "arrow":
            import pyarrow

            data = pyarrow.Table.from_pandas(df, preserve_index=False)
    except Exception as e:
        return {"skip": "input could not be constructed: " + type(e).__name__ + ": " + str(e)[:120]}
    try:
        with warnings.catch_warnings():
            warnings.simplefilter("ignore")
            mm = model_matrix(formula_of(c), data, output=c["output"], ensure_full_rank=c["efr"], na_action=c["na"],
                              materializer="pandas" if c["mat"] == "pandas" else "narwhals")
    except Exception as e:
        return {"error": type(e).__name__, "msg": str(e)[:200]}
    return matrix_observable(mm, c["output"])


def impl_levels(c):
    from formulaic.model_spec import ModelSpec
    from formulaic.transforms.contrasts import encode_contrasts

    vals = c["vals"]
    if c["dtype"] == "category":
        cats = sorted({v for v in vals if v is not None})
        data = pandas.Series(pandas.Categorical(vals, categories=cats[::-1]))  # declared order: reverse sorted
    else:
        data = pandas.Series(vals, dtype=c["dtype"])
    state = {}
    spec = ModelSpec(formula=[], output=c["output"])
    try:
        with warnings.catch_warnings():
            warnings.simplefilter("ignore")
            encode_contrasts(data, levels=c["declared"], reduced_rank=False, _state=state, _spec=spec)
    except Exception as e:
        return {"error": type(e).__name__, "msg": str(e)[:200]}
    return {"levels": [str(x) for x in state["categories"]]}


def impl(c):
    return impl_levels(c) if c["kind"] == "levels" else impl_dtypes(c)


# ----------------------------------------------------------------------------- request / agree


def col_request(col):
    t = {"text": "text", "categorical": "cat", "numeric": "num", "bool": "bool"}[col["family"]]
    out = dict(name=col["name"], dtype=col["label"], type=t, vals=col["vals"])
    if t == "cat":
        out["declared"] = [str(x) for x in (col.get("declared") or sorted({v for v in col["vals"] if v is not None}))]
        out["vals"] = [None if v is None else str(v) for v in col["vals"]]
    return out


def request(c, o):
    if c["kind"] == "levels":
        declared = c["declared"]
        if declared is None and c["dtype"] == "category":
            declared = sorted({v for v in c["vals"] if v is not None})[::-1]
        return dict(op="levels", vals=c["vals"], declared=declared)
    nrows = len(c["cols"][0]["vals"])
    return dict(op="build", mat=c["mat"], intercept=c["intercept"], efr=c["efr"], na=c["na"], nrows=nrows,
                cols=[col_request(col) for col in c["cols"]])


def float_image(fr):
    """the value a float64 holds for the exact number `fr` (round to nearest)"""
    return Fraction(float(fr))


def allow_common_dtype(c, ncols):
    """May a cell hold the float64 image of its input instead of the input itself?

    A pandas frame has one dtype per column, so a numeric column must come out exactly as it went in. A numpy array
    or sparse matrix has ONE dtype for all columns: stacked with a float column (the intercept, a float input, a sparse
    dummy column) an integer column is necessarily held in the common dtype float64. That conversion is the container's,
    not a change of the numbers by the library, and is accepted -- but only when the matrix has more than one column."""
    return c["output"] != "pandas" and ncols > 1


def _same_cell(a, b, allow_float=False):
    if isinstance(a, dict) and "b" in a:
        a = "1" if a["b"] else "0"
    if isinstance(a, dict) or isinstance(b, dict):
        return a == b
    if a == "nan" or b == "nan":
        return a == b
    x, y = Fraction(a), Fraction(b)
    return x == y or (allow_float and x == float_image(y))


def agree(c, o, m):
    if "driver_error" in m:
        return "driver: " + m["driver_error"][:300]
    if "harness_exception" in o or "skip" in o:
        return None
    if c["kind"] == "levels":
        if "error" in o:
            return f"encode_contrasts raised {o['error']}: {o.get('msg')}"
        return None if o["levels"] == m.get("levels") else f"levels differ: impl {o['levels']} vs model {m.get('levels')}"
    if "error" in o or "error" in m:
        if "error" in o and "error" in m:
            return None
        return f"impl {o.get('error', 'ok')} ({o.get('msg', '')}) vs model {m.get('error', 'ok')}"
    mn = [x["name"] for x in m["columns"]]
    if mn != o["names"]:
        return f"column names differ: impl {o['names']} vs model {mn}"
    for j, (mc, oc) in enumerate(zip(m["columns"], o["cols"])):
        af = allow_common_dtype(c, len(mn))
        if len(mc["values"]) != len(oc) or not all(_same_cell(a, b, af) for a, b in zip(oc, mc["values"])):
            return f"column {mc['name']}: impl {oc} vs model {mc['values']}"
    return None


# ----------------------------------------------------------------------------- oracle


def _retained(c):
    n = len(c["cols"][0]["vals"])
    nulls = [any(col["vals"][i] is None for col in c["cols"]) for i in range(n)]
    if c["na"] == "drop":
        return [i for i in range(n) if not nulls[i]], nulls
    return list(range(n)), nulls


def oracle(c, o):
    if "harness_exception" in o:
        return "harness could not run the implementation: " + o["harness_exception"]
    if "skip" in o:
        return None
    if c["kind"] == "levels":
        if "error" in o:
            return f"encode_contrasts raised {o['error']}: {o.get('msg')}"
        present = sorted({v for v in c["vals"] if v is not None})
        if c["declared"] is not None:
            want = list(c["declared"])
        elif c["dtype"] == "category":
            want = present[::-1]
        else:
            want = present
        return None if o["levels"] == want else f"levels {o['levels']}, the property requires {want}"
    keep, nulls = _retained(c)
    if c["na"] == "raise" and any(nulls):
        return None if "error" in o else "na_action='raise' with a null present did not raise"
    if "error" in o:
        return f"materialisation failed with {o['error']}: {o.get('msg', '')}"
    # every cell a number
    for name, col in zip(o["names"], o["cols"]):
        for x in col:
            if isinstance(x, dict) and "s" in x:
                return f"cell {x['s']!r} of column {name!r} is not a number"
    # (an object-dtype container whose cells are all Python numbers satisfies the property text; `numeric_dtype` is
    # recorded as an observable only)
    if o["shown"] != o["names"]:
        return f"the matrix shows columns {o['shown']} but the spec names {o['names']}"
    # expected column structure
    pos = 0
    names, cols = o["names"], o["cols"]

    def colvals(j):
        return [("1" if x["b"] else "0") if isinstance(x, dict) else x for x in cols[j]]

    if c["intercept"]:
        if not names or names[0] != "Intercept":
            return f"first column is {names[:1]}, expected Intercept"
        if any(x == "nan" or Fraction(x) != 1 for x in colvals(0)) or len(cols[0]) != len(keep):
            return f"Intercept column is {cols[0]} for {len(keep)} retained rows"
        pos = 1
    for col in c["cols"]:
        vals = [col["vals"][i] for i in keep]
        nm = col["name"]
        if col["family"] in ("text", "categorical"):
            if col["family"] == "text":
                levels = sorted({v for v in vals if v is not None})
            else:
                levels = [x for x in col["declared"]]
            labels = [str(x) for x in levels]
            # the emitted level columns of this factor
            emitted = []
            while pos < len(names) and names[pos].startswith(nm + "["):
                emitted.append(pos)
                pos += 1
            got = [names[j] for j in emitted]
            full = [f"{nm}[{l}]" for l in labels]
            red = [f"{nm}[T.{l}]" for l in labels[1:]]
            if got == full:
                used = levels
            elif got == red:
                used = levels[1:]
            else:
                kind = "sorted" if col["family"] == "text" else "declared"
                return (f"column {nm} ({col['label']}) is encoded as {got}; with levels in {kind} order {labels} the indicator "
                        f"columns must be {full} or (reduced) {red}")
            for j, lv in zip(emitted, used):
                want = ["1" if v == lv else "0" for v in vals]
                if [None if x == "nan" else Fraction(x) for x in colvals(j)] != [Fraction(x) for x in want]:
                    return f"column {names[j]} is {cols[j]}, the indicator of level {lv!r} is {want}"
        else:
            if pos >= len(names) or names[pos] != nm:
                return (f"{col['family']} column {nm} ({col['label']}) must pass through under its own name; "
                        f"columns are {names}")
            if col["family"] == "bool":
                want = [None if v is None else Fraction(int(v)) for v in vals]
            else:
                want = [None if v is None else Fraction(v) for v in vals]
            got = [None if x == "nan" else Fraction(x) for x in colvals(pos)]
            af = allow_common_dtype(c, len(names))

            def unchanged(g, w):
                if g is None or w is None:
                    return g is None and w is None
                return g == w or (af and g == float_image(w))

            if len(got) != len(want) or not all(unchanged(g, w) for g, w in zip(got, want)):
                how = ("exactly (integers compared as Python ints)" if not af else
                       "exactly or as their float64 image (the matrix has one dtype for all its columns)")
                return (f"numeric column {nm} ({col['label']}) is {cols[pos]}, the input values are "
                        f"{[None if w is None else fstr(w) for w in want]}; they must come out {how}")
            pos += 1
    if pos != len(names):
        return f"unexpected extra columns {names[pos:]}"
    return None


def classify(c, o, why):
    return None


LEVEL_TEXT = (
    "Proof: Lean theorems (Props/C08.lean). Two are decided over the kind table regenerated on every run from the live "
    "`_is_categorical` of both materializers (narwhals on pandas and on pyarrow input) on one probe series per dtype: every "
    "text and categorical dtype is CATEGORICAL, every numeric/bool dtype NUMERICAL. For ALL value lists the model's level "
    "list is THE strictly sorted duplicate-free list of the non-null values (declared order for a categorical dtype), every "
    "dummy column is the indicator of its level, numeric columns pass through unchanged, and hence every cell of the "
    "model's matrix is a number for every frame, null policy and materializer. The model is tied to the code by a "
    "differential correspondence on every run (names and exact values for every dtype x output x materializer)."
)
LEVEL_NOTE = (
    "Trusted: Lean kernel + propext/Classical.choice/Quot.sound; the dtype probe list; the hand model of kind inference -> "
    "level discovery -> dummy coding for main-effects formulas validated by correspondence; pandas' category machinery, "
    "get_dummies and the narwhals/pyarrow conversions are observed, not proved (partial)."
)
