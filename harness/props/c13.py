"""C13 — Scaling, polynomial and elementwise transforms meet their numeric contracts.

Correspondence stream `c13` (one engine, request kinds `scale`, `poly`, `elem`, `names`, `Q`, `treatment`, `identity`):

* `scale`  — the real `scale` / `center` / `standardize` as a caller reaches them: arguments written positionally, by
  keyword or defaulted (also ill-formed lists: `TypeError`), every flag / number handed over as the Python object or
  as a numpy scalar / 0-d array / Python float of every type that holds it (`numpy.bool_` IS a flag:
  `Model.ScaleEntry.Written`, theorem `numpy_bool_is_flag`), data in every container and storage type (ndarray, list,
  pandas / narwhals Series, `scipy.sparse` matrix with one column — or with 0/2/3: `ValueError`; float64, int64,
  int32, uint8/16/32/64 and bool holding numbers that need the full width of the type, float32 / float16), an explicit `_state` dict threaded through a fitting call and follow-up calls (or `model_matrix` +
  `model_spec.get_model_matrix` on a pandas frame / arrow table), against `Model.ScaleEntry.call` at `Rat` (binding
  against the signatures regenerated from the live functions, sparse dispatch, then `Model.Scale.run`).  `numpy.sqrt`
  is a parameter of the model: the harness forwards the recorded float `scale` and checks the contract
  `scale**2 == var` (1e-12 relative) against the variance the model computed exactly.
* `poly`   — the real `poly` (orthogonal and raw, NaN rows anywhere, follow-up vectors, too-high / negative / bool
  degree, every spelling of the arguments, containers and integer storage) against `Model.PolyEntry.call` →
  `Model.Poly.run`; `alpha`/`norms2` compared with the exact rationals (1e-9 relative), the roots `sqrt(norms2[k])`
  are forwarded and contract-checked, outputs compared at 1e-9, `column_names` / formula labels compared exactly.
* `elem`   — every elementwise key that `Model.Elementwise.table` names, looked up in the live `TRANSFORMS`, called on
  every container (ndarray, Python / numpy scalar, 0-d array, list, Series, narwhals Series; pandas frame and arrow
  table through a formula), evaluated at exactly representable probe points and compared EXACTLY with the model's
  `exactAt`; plus random dyadic probes compared with the named real function computed with `math`.
* `names`  — the contract of every preloaded name (`Model.Preloaded.contracts`) against `Gen/TransformTable.lean`.
* `Q` / `treatment` / `identity` — the remaining shims of patsy_compat.py / identity.py against
  `Model.PatsyCompat.Q` (named layers of the evaluation environment), `Treatment` (→ the treatment coding of C11's
  contrast model) and `identity`.

* route `ref` (scale and poly requests) — the same transforms with the state kept by the LIBRARY (the harness passes
  no `_state`): the call is written with every spelling of the callee (preloaded name, alias, module / package /
  namespace / class attribute, nested attribute, dict or list item, result of a call), at top level of the factor or
  inside another call / a quoted python fragment / arithmetic, and evaluated through `model_matrix` +
  `ModelSpec.get_model_matrix`, `Formula.get_model_matrix`, `model_matrix(spec, data)` with the names captured from
  the calling frame, or `stateful_eval` with a shared state mapping (data as a Series or a one-column sparse matrix) —
  fitted on one vector, replayed on 1..2 follow-up vectors.  The recorded state and every output are compared with the
  model run on the same history.  The data column is `x` or a BACK-QUOTED name (Python keyword, identifier that NFKC
  changes, non-identifier, plain identifier), stored as float64 or an unsigned / logical type, and every data set of
  the history may carry UNUSED columns named like the stand-ins the library can pick for the name (`class_1`, `_class`,
  `a_b`, `_`, the NFKC form …): the key the library keeps the state under is compared, on every data set, with
  `Model.TransformKey.stateKey` (the sanitiser of C15's `Model.PyAlias` + the restoration loop of `stateful_eval`;
  CPython's unparser / `str.isidentifier` / `\\w` enter as data), which is proved not to depend on the other names.

* known findings (generated on every run, reported as KNOWN-FINDING, see `classify`): `extreme` — vectors whose squares
  leave float64 or whose offset is > 2^40 spreads (C13-F1: IEEE range / rounding is not modelled); `comp` — one call
  text executed on several vectors inside a comprehension (C13-F2: one shared state entry); `elemrand` on narrow
  storage (C13-F3: numpy's log / exp loops run in float16 / float32 there).

Oracle (implementation alone): mean≈0 / std≈1 on the fitting data (std about the chosen centre when `center` is
`False` or a number) whatever container / integer type holds the numbers, follow-up data transformed with the recorded
statistics (manual formula), poly columns orthonormal, orthogonal to 1, same span as raw powers, raw columns are the
powers, NaN rows propagate row-wise, exp/log pairs inverse, exp10(x) = 10**x in every container, Q returns the data
column, Treatment(r) drops exactly level r, I(x) is x.  Where the library keeps the state (routes `formula`, `ref`)
the follow-up outputs are additionally checked against the affine map / the polynomials recovered from the fitting
output alone, so a transform that is silently re-fitted is pinned whatever was recorded.
"""
from __future__ import annotations

import keyword
import math
import re
import unicodedata
from fractions import Fraction

import numpy
import pandas

PROPERTY = "C13"
ENGINE = "c13"
REQUIRED_THEOREMS = [
    "center_zero_mean",
    "scale_zero_mean",
    "scale_unit_std",
    "scale_unit_std_real",
    "scale_applies_recorded",
    "scale_never_refits",
    "scale_unit_about_center",
    "scale_unit_about_center_real",
    "entry_sparse",
    "entry_defaults",
    "entry_never_refits",
    "numpy_bool_is_flag",
    "standardize_unit_std_real",
    "three_term_orthogonal",
    "poly_orthogonal",
    "poly_orthonormal",
    "poly_spans_powers",
    "poly_nan_rowwise",
    "poly_applies_recorded",
    "poly_raw_powers",
    "poly_output_spans_powers",
    "poly_nan_insert",
    "poly_entry",
    "poly_never_refits",
    "poly_real_hypotheses",
    "poly_orthonormal_real",
    "poly_finite_iff_distinct",
    "exp_log_inverse",
    "exp10_def",
    "exactAt_sound",
    "table_names_live",
    "preloaded_contracts",
    "elementwise_identity",
    "Q_reads_data_layer",
    "Treatment_is_treatment_base",
    "identity_id",
    "state_key_of_call",
    "state_key_ignores_other_columns",
]
TRUSTED = [
    "modelled, not verified: numpy.sqrt (parameter `sqrt` of the model with contract sqrt(v)^2 = v, checked per case "
    "to 1e-12 relative), numpy/libm exp, exp2, log, log2, log10, power (the model only names the real function; "
    "exact agreement is checked at exactly representable points and 1e-12 relative agreement on random dyadic probes, "
    "in every container: ndarray, Python and numpy scalar, 0-d array, list, pandas Series, narwhals Series, a pandas "
    "frame and an arrow table through a formula)",
    "IEEE-754 rounding: the model computes in exact rationals; outputs are compared at 1e-9, recorded statistics at 1e-12/1e-9 relative",
    "numpy yields nan/inf on division by zero without raising; the model reports that outcome as `nonFinite` "
    "(zero variance, ddof = n, fewer distinct values than degree + 1)",
    "numpy.array(data) / data.toarray()[:, 0] turn every container (list, Series, narwhals Series, one-column scipy.sparse "
    "matrix in csc/csr/coo format; float64, float32, float16, int64, int32, uint8, uint16, uint32, uint64, bool storage) into the vector of "
    "the numbers it holds: the model receives that vector (`Data.dense` / `Data.sparse`), the conversion itself "
    "(and `astype(float64)` of an integer / logical array) is numpy's / scipy's; that the arithmetic is then done on the "
    "numbers and not in the storage type is observed on vectors whose squares / differences / powers leave the type",
    "the TYPE that carries a written flag / number (Python bool / int / float, numpy bool_ / integer / floating scalar, "
    "0-d array) enters the model as one of three tags (Model.ScaleEntry.Written: pyBool, npBool, number): that numpy's "
    "arithmetic with a numeric scalar of any type is the arithmetic of the number it holds is observed (values exact in "
    "the type), not modelled; an UNSIGNED numpy ddof > n (where numpy's own `n - ddof` wraps around) is not generated - "
    "the property claims nothing for ddof > n; poly's degree as a float (TypeError from range / numpy.empty) is not generated",
    "IEEE range and rounding are not modelled: on vectors whose squares leave float64 (|x| > 1e150, < 1e-150) or whose "
    "common offset exceeds 2^40 spreads the exact model and the float64 code differ - known finding C13-F1, generated "
    "and reported on every run, not compared",
    "the translator's classification of the TRANSFORMS entries (harness/translate.py `_classify_preloaded`: object "
    "identity for named objects, exact probes for anonymous callables) that Gen/TransformTable.lean records",
    "the dict-valued-data rule of the stateful_transform wrapper is not modelled here (it is C04's); the dict insertion "
    "order of poly's alpha/norms2 memo is not modelled",
    "stateful_eval's AST rewriting (which call nodes are given `_state`) is not modelled: the model is the transform "
    "with an explicit state; the route `ref` observes on every run that, for each spelling of the callee / position / "
    "entry point / column name generated, the library-kept state and the follow-up outputs equal those of the model run "
    "with the state threaded explicitly.  The KEY the state is recorded under is modelled for a call with one "
    "back-quoted column (Model/TransformKey.lean on top of C15's Model/PyAlias.lean, imported unchanged): CPython's "
    "`ast.unparse` of the call node (as the text around the stand-in), `str.isidentifier` + NFKC stability of the name "
    "and the non-ASCII `\\w` characters are parameters sent by the harness; the contract of the unparser parameter "
    "(stand-in between non-word characters, no word that the source does not have) is asserted per case; the stand-in "
    "itself is not observable from outside and is not compared",
    "Contrasts.codingColumnNames / LayeredMapping layer trees are the models of C11 / C19 (imported unchanged); "
    "`LayeredMapping.named_layers` is modelled here (Model/PatsyCompat.lean) and tied by the `Q` stream",
]
ASSUMPTIONS = [
    "scale_unit_std / scale_unit_about_center: ddof != n and the data are not all equal to the chosen centre (variance != 0)",
    "poly_orthonormal / poly_output_spans_powers / poly_applies_recorded (any field): norms2[k] != 0 for k <= degree; over "
    "the reals this is proved equivalent to: more than `degree` distinct non-missing values (poly_finite_iff_distinct)",
    "exp_log_inverse: log(exp y) = y for all y, exp(log x) = x for x > 0",
    "poly_nan_insert: the insertion position is at most the length of the vector",
    "state_key_of_call / state_key_ignores_other_columns: the expression has one back-quoted name (text, name, text); the "
    "unparsed call is pre ++ stand-in ++ post with the stand-in between non-word characters and every word of pre/post a "
    "word of the source; ASCII identifiers are identifiers and ASCII word characters are word characters for CPython",
]
RULE = (
    "scale: fn in {scale, center, standardize} (possibly another of the three on each follow-up call) x written "
    "arguments: each of center/scale|rescale/ddof positional, by keyword or defaulted, value in {True, False, number} "
    "(ddof also as a bool), each 30% carried by a numpy scalar or 0-d array of any type that holds the value exactly "
    "(bool_; int8..int64, uint8..uint64; float16/32/64) or a Python float, 10% ill-formed (unknown / foreign keyword, too many positionals, a parameter twice) x "
    "container in {ndarray, list, pandas Series, narwhals Series, scipy.sparse csc/csr/coo with 1 column (a vector) or "
    "0/2/3 columns (ValueError)} x storage float64/float32/float16/int64/int32/uint8/uint16/uint32/uint64/bool x fitting vector (integers "
    "or dyadic rationals, length 2..30, magnitude <= 2^20, occasionally constant; 40% times 2^e, e in -60..60; 12% "
    "integers m*2^e whose squares overflow the integer type they are stored in; 18% unsigned / logical storage with the "
    "top bit of the type in use - anywhere in the range, upper half only, m*2^(w-4), the two ends - and then mostly "
    "center=False or a number: a data value, half the maximum, a small or negative integer, a dyadic rational) "
    "x 0..2 follow-up calls with other data AND other arguments (must be "
    "ignored), optional pre-seeded _state, route direct or through model_matrix/model_spec on a pandas frame or an "
    "arrow table (float or integer / unsigned / bool column, arguments written in the formula); poly: degree 0..6 (also negative, also written True) x raw (also written 0/1) "
    "x spelling positional/keyword/default (degree / raw 25% carried by a numpy bool_ / integer scalar or 0-d array; raw also a float) x ill-formed calls x container/storage as above (15% unsigned / logical "
    "storage needing the full width, 60% of those raw=True) x NaN rows x follow-ups "
    "(same, lower and too-high degree) incl. vectors with too few distinct values, column names / formula labels; "
    "ref (state kept by the library): transform in "
    "{scale, center, standardize, poly} x callee spelling in {preloaded name, alias name, module attribute, dotted package "
    "path, namespace attribute, nested attribute, class attribute, dict item, list item, call result} x position in "
    "{the factor itself, I(.), {.}, {1 * .}} x entry in {model_matrix + spec.get_model_matrix(context=dict), "
    "Formula.get_model_matrix + spec.get_model_matrix, model_matrix(formula)/model_matrix(spec) with names captured from "
    "the caller's frame, stateful_eval with one shared state mapping (data as a Series or a one-column sparse matrix)} "
    "x output pandas/numpy x written arguments positional or keyword "
    "(center/scale flag or number, ddof in {0,1,2,1/2,n}; degree 1..5, raw) x fitting vector (as above, 30% scaled by 2^e) "
    "x 1..2 follow-up vectors x column name in {x (55%), back-quoted: 12 Python keywords, 8 identifiers that NFKC changes, "
    "13 non-identifiers, 6 plain identifiers} with 0..3 unused columns per data set (30% of fitting sets, 85% of follow-up "
    "sets) named like the stand-ins of that name (base, base_1..3, _base, base_, NFKC form, _formulaic_base) x column "
    "storage float64 (80%) or uint8/16/32/64/bool needing the full width (then mostly center=False / a number; poly raw "
    "50%); elem: every name of the model table x storage type "
    "float64/int64/int32 x every probe index the type can hold (exp10: 10^k for k = -5..30 incl. negative and >= 19) x "
    "container in {ndarray, Python scalar, numpy scalar, 0-d array, list, Series (index kept), narwhals Series} for direct "
    "calls and {pandas frame, arrow table} through model_matrix, plus random dyadic and random integer-typed probes; "
    "names: the contract of each of the 26 preloaded names against the live table; Q: 1..5 data columns and 0..2 context "
    "entries drawn from names with spaces / dots / transform names / non-ASCII x queried name in data, in context only, "
    "or nowhere x environment in {materializer (pandas, arrow), LayeredMapping with a layer named data / otherwise, plain "
    "dict, no context}; Treatment: 2..5 string or integer levels x reference unset / a level / no level x with or without "
    "intercept x positional or keyword x pandas/arrow; I: every container, and I(x) through a formula; "
    "known-finding streams: 12 extreme vectors (k*2^(+-600..1000), 2^50|2^52 + k) through scale/center/standardize/poly "
    "(C13-F1); 10 comprehensions [f(v) for v in (x, y[, z])] in three spellings (C13-F2); 24 elementwise probes on "
    "bool/int8/uint8/float16/int16/uint16/float32 storage, direct and through a formula (C13-F3); "
    "non-trivial = fitting happens on a non-constant vector / degree >= 2 / a probe with k != 0 / more than one column / "
    "a reference given; distinct by canonical JSON"
)

ELEM_NAMES = ["log", "log10", "log2", "exp", "exp10", "exp2"]
PARTNER = {"log": "exp", "exp": "log", "log2": "exp2", "exp2": "log2", "log10": "exp10", "exp10": "log10"}
# independent restatement of what each NAME denotes (python `math` only; used by the oracle)
REAL = {
    "log": math.log,
    "log2": math.log2,
    "log10": math.log10,
    "exp": math.exp,
    "exp2": lambda x: 2.0 ** x,
    "exp10": lambda x: 10.0 ** x,
}


# ----------------------------------------------------------------------------- helpers


def fr(x) -> str:
    f = Fraction(x)
    return f"{f.numerator}/{f.denominator}"


def unfr(s) -> Fraction:
    return Fraction(s)


def fl(s) -> float:
    return float(Fraction(s))


def jf(v):
    """float -> JSON-able (non-finite as strings)"""
    if v is None:
        return None
    v = float(v)
    if math.isnan(v):
        return "nan"
    if math.isinf(v):
        return "inf" if v > 0 else "-inf"
    return v


def finite(v):
    return v is None or (isinstance(v, float) and math.isfinite(v)) or isinstance(v, int)


def close(a: float, b: float, tol: float) -> bool:
    return abs(a - b) <= tol * max(1.0, abs(a), abs(b))


def rand_vector(rng, n=None, kind=None):
    n = n or rng.choice([2, 2, 3, 3, 4, 5, 6, 8, 12, 20, 30])
    kind = kind or rng.choice(["small", "small", "big", "dyadic", "dyadic", "offset", "const", "two"])
    if kind == "small":
        v = [Fraction(rng.randint(-9, 9)) for _ in range(n)]
    elif kind == "big":
        v = [Fraction(rng.randint(-(2 ** 20), 2 ** 20)) for _ in range(n)]
    elif kind == "dyadic":
        e = rng.choice([1, 2, 3, 6, 10])
        v = [Fraction(rng.randint(-(2 ** rng.choice([4, 10, 20])) * 2 ** e, 2 ** 20 * 2 ** e), 2 ** e) for _ in range(n)]
        v = [x if abs(x) <= 2 ** 20 else x / 2 ** 10 for x in v]
    elif kind == "offset":
        base = rng.randint(-(2 ** 20) + 100, 2 ** 20 - 100)
        v = [Fraction(base + rng.randint(-50, 50)) for _ in range(n)]
    elif kind == "const":
        c = Fraction(rng.randint(-40, 40), rng.choice([1, 2, 4]))
        v = [c] * n
    else:  # exactly two distinct values
        a, b = Fraction(rng.randint(-9, 9)), Fraction(rng.randint(10, 20))
        v = [rng.choice([a, b]) for _ in range(n)]
    return [fr(x) for x in v]


def rand_arg(rng):
    r = rng.random()
    if r < 0.55:
        return True
    if r < 0.8:
        return False
    return fr(Fraction(rng.randint(-12, 12) or 3, rng.choice([1, 2, 4])))


# --- HOW a flag / number argument is handed over.  A plain case value is a Python object (`True` / `False`, or a
# --- "p/q" string: Python int when q = 1, else Python float).  A dict `{"v": value, "as": type, "box": box}` is the
# --- same value as a Python float (`as = "float"`), a numpy scalar (`as` in NP_ARG_TYPES, `box = "scalar"`) or a
# --- 0-d array of that type (`box = "zerodim"`): what `numpy.any(...)`, `x.mean()`, `numpy.array(3)` … return.  The
# --- property quantifies over "all ... center/scale flags and ddof": a flag is a flag whichever boolean type holds it.
NP_INT_ARG = ["int8", "int16", "int32", "int64", "uint8", "uint16", "uint32", "uint64"]
NP_FLOAT_ARG = ["float16", "float32", "float64"]
NP_ARG_TYPES = ["bool_"] + NP_INT_ARG + NP_FLOAT_ARG


def arg_value(a):
    """the value an argument denotes: `True` / `False`, or a "p/q" string (poly: an int) - whatever type carries it"""
    return a["v"] if isinstance(a, dict) else a


def arg_object(a):
    """the Python / numpy object that is passed for the case value `a`"""
    if not isinstance(a, dict):
        return a if isinstance(a, (bool, int)) else _num(a)
    v = a["v"]
    num = v if isinstance(v, (bool, int)) else Fraction(v)
    if a["as"] == "float":
        return float(num)
    ty = getattr(numpy, a["as"])
    obj = ty(num) if isinstance(num, (bool, int)) else (ty(int(num)) if a["as"] in NP_INT_ARG else ty(float(num)))
    return numpy.array(obj) if a.get("box") == "zerodim" else obj


def arg_text(a):
    """the same object written in a formula (`np` is preloaded), in the unparser's normal form"""
    if not isinstance(a, dict):
        return repr(a) if isinstance(a, (bool, int)) else repr(_num(a))
    v = a["v"]
    lit = repr(v) if isinstance(v, (bool, int)) else repr(_num(v))
    if a["as"] == "float":
        return f"float({lit})"
    inner = f"np.{a['as']}({lit})"
    return f"np.array({inner})" if a.get("box") == "zerodim" else inner


def typed_forms(v, unsigned_ok=True, floats_ok=True):
    """every (as, box) that holds the value `v` exactly"""
    out = []
    if isinstance(v, bool):
        return [("bool_", "scalar"), ("bool_", "zerodim")]
    f = Fraction(v)
    if f.denominator == 1:
        for t in NP_INT_ARG:
            info = numpy.iinfo(t)
            if info.min <= f.numerator <= info.max and (unsigned_ok or not t.startswith("u")):
                out += [(t, "scalar"), (t, "zerodim")]
    for t in NP_FLOAT_ARG if floats_ok else []:
        with numpy.errstate(all="ignore"):
            x = getattr(numpy, t)(float(f))
        if numpy.isfinite(x) and Fraction(float(x)) == f:
            out += [(t, "scalar"), (t, "zerodim")]
    if floats_ok and Fraction(float(f)) == f:
        out.append(("float", "scalar"))
    return out


def maybe_typed(rng, v, p=0.3, unsigned_ok=True, floats_ok=True):
    """with probability `p` the value `v` carried by a numpy scalar / 0-d array / Python float instead of the plain
    Python object"""
    if rng.random() >= p:
        return v
    forms = typed_forms(v, unsigned_ok, floats_ok)
    if not forms:
        return v
    t, box = rng.choice(forms)
    return dict(v=v, **{"as": t}, box=box)


# ----------------------------------------------------------------------------- generators


MAG_EXPONENTS = [-60, -50, -40, -40, -30, -20, 20, 30, 40, 40, 50, 60]


def shift_mag(vec, e):
    """multiply a vector of "p/q" strings by 2**e (exact in binary floating point: no rounding is introduced)"""
    f = Fraction(2) ** e
    return [fr(Fraction(v) * f) for v in vec]


# --- how the data reach the transform: every container the library (or a caller) hands over, and the storage type
CONTAINERS = ["ndarray", "ndarray", "list", "series", "nwseries", "sparse", "sparse"]
SPARSE_FORMATS = ["csc", "csr", "coo"]
# the documented signatures (scale.py / patsy_compat.py docstrings), restated for the oracle and the generators
WRITTEN_PARAMS = {"scale": ["center", "scale", "ddof"], "center": [], "standardize": ["center", "rescale", "ddof"],
                  "poly": ["degree", "raw"]}
DOC_DEFAULTS = {"scale": dict(center=True, scale=True, ddof="1/1"), "center": dict(center=True, scale=False, ddof="1/1"),
                "standardize": dict(center=True, scale=True, ddof="0/1")}


def written(call):
    """(positional list, [(keyword, value)]) of the arguments written after the data argument.  Older cases carry
    the keywords as `center` / `scale` / `ddof` entries of the call itself."""
    if "pos" in call or "kw" in call:
        return list(call.get("pos", [])), [tuple(p) for p in call.get("kw", [])]
    fn = call.get("fn")
    kw = []
    if "center" in call:
        kw.append(("center", call["center"]))
    if "scale" in call:
        kw.append(("rescale" if fn == "standardize" else "scale", call["scale"]))
    if "ddof" in call:
        kw.append(("ddof", call["ddof"]))
    return [], kw


def bound_args(fn, call):
    """independent restatement of Python's argument binding against the DOCUMENTED parameter list: parameter -> value,
    or None when the call is ill-formed (TypeError)"""
    pos, kw = written(call)
    params = WRITTEN_PARAMS[fn]
    if len(pos) > len(params):
        return None
    out = dict(zip(params, pos))
    for k, v in kw:
        if k not in params or k in out:
            return None
        out[k] = v
    return out


def effective(call):
    """center / scale / ddof the call asks for (documented defaults filled in); None for an ill-formed call"""
    fn = call["fn"]
    b = bound_args(fn, call)
    if b is None:
        return None
    d = dict(DOC_DEFAULTS[fn])
    b = {k: arg_value(v) for k, v in b.items()}  # a flag is a flag, a number a number, whichever type carries it
    if "center" in b:
        d["center"] = b["center"]
    if "scale" in b or "rescale" in b:
        d["scale"] = b.get("scale", b.get("rescale"))
    if "ddof" in b:
        d["ddof"] = b["ddof"]
    return d


def rand_written(rng, fn, n, force=None):
    """a well-formed argument list: each parameter written positionally, by keyword, or left to its default
    (`force`: parameter -> value that is written in any case)"""
    params = WRITTEN_PARAMS[fn]
    vals = {}
    for p in params:
        if force and p in force:
            vals[p] = force[p]
        elif rng.random() < 0.75:
            if p == "ddof":
                vals[p] = rng.choice([fr(0), fr(1), fr(1), fr(2), fr(Fraction(1, 2)), fr(n), fr(n + 1), True, False])
                # (an unsigned numpy ddof > n would make `n - ddof` wrap around in numpy's own scalar arithmetic; the
                # property claims nothing for ddof > n, so that corner is left to the signed types)
                vals[p] = maybe_typed(rng, vals[p], unsigned_ok=vals[p] != fr(n + 1))
            else:
                vals[p] = maybe_typed(rng, rand_arg(rng))
    npos = 0
    if rng.random() < 0.35:
        while npos < len(params) and params[npos] in vals and rng.random() < 0.7:
            npos += 1
    pos = [vals[p] for p in params[:npos]]
    kws = [(p, vals[p]) for p in params[npos:] if p in vals]
    rng.shuffle(kws)
    return pos, [list(k) for k in kws]


def rand_bad_written(rng, fn, n):
    """an ill-formed argument list (each of these is a TypeError in Python, before any statistic is touched)"""
    params = WRITTEN_PARAMS[fn]
    other = {"scale": "rescale", "standardize": "scale", "center": rng.choice(["scale", "center", "ddof"])}[fn]
    how = rng.choice(["unknown", "unknown", "toomany", "twice"] if params else ["unknown", "toomany"])
    if how == "unknown":
        pos, kw = rand_written(rng, fn, n)
        kw.insert(rng.randrange(len(kw) + 1), [rng.choice([other, "Center", "dof"]), rand_arg(rng)])
        return pos, kw
    if how == "toomany":
        return [rand_arg(rng) for _ in range(len(params) + 1)], []
    k = rng.randrange(len(params))
    return [rand_arg(rng) for _ in range(k + 1)], [[params[rng.randrange(k + 1)], rand_arg(rng)]]


def int_storable(vec, dtype):
    lo, hi = INT_RANGE[dtype]
    return all(Fraction(v).denominator == 1 and lo <= Fraction(v).numerator <= hi for v in vec)


NARROW_FLOATS = ["float32", "float16"]


def float_storable(vec, dtype):
    """every value is exactly a finite number of the narrow floating type"""
    with numpy.errstate(all="ignore"):
        arr = numpy.array([fl(v) for v in vec], dtype=dtype)
    return bool(numpy.all(numpy.isfinite(arr))) and all(Fraction(float(a)) == Fraction(v) for a, v in zip(arr, vec))


def boxed(rng, call, vec, allow_sparse=True, dtype=None):
    """choose container and storage type for the vector `vec` of a call (`dtype`: the storage type is given)"""
    if dtype is not None:
        call["container"] = rng.choice([k for k in CONTAINERS if k != "sparse"])
        call["dtype"] = dtype
        return
    kind = rng.choice(CONTAINERS if allow_sparse else [k for k in CONTAINERS if k != "sparse"])
    call["container"] = kind
    if kind == "sparse":
        call["format"] = rng.choice(SPARSE_FORMATS)
        ncols = rng.choice([1, 1, 1, 1, 0, 2, 3])
        cols = [list(vec)] if ncols == 1 else [
            [fr(Fraction(rng.randint(-9, 9))) if rng.random() < 0.6 else fr(0) for _ in vec] for _ in range(ncols)]
        call["cols"] = cols
        return
    dtypes = ["float64", "float64"] + [d for d in INT_TYPES if int_storable(vec, d)]
    # single / half precision storage is a representation of the numbers as well (statistics taken IN the type lose
    # digits, and squares leave its range from 2^64 resp. 256 on)
    dtypes += [d for d in NARROW_FLOATS if float_storable(vec, d)]
    call["dtype"] = rng.choice(dtypes)


def unsigned_vector(rng, n, dtype, kinds=("rand", "rand", "top", "steps", "ends")):
    """non-negative integers that NEED the storage type `dtype` (an unsigned width, or bool): at least one value has
    the top bit set, so squares, sums and differences of the stored numbers leave the range of the type (for uint8
    already from 16 on).  Every value is exact in binary floating point (uint64: multiples of 2^11), and the spread
    is comparable to the magnitude, so the comparisons stay relative to the size of the data."""
    if dtype == "bool":
        v = [rng.randint(0, 1) for _ in range(n)]
        if len(set(v)) < 2 and rng.random() < 0.9:
            v[0], v[-1] = 1, 0
        return [fr(x) for x in v]
    w = WIDTH[dtype]
    unit = 2 ** 11 if w == 64 else 1  # keeps 64-bit values exact as floats
    top = 2 ** w // unit
    kind = rng.choice(list(kinds))
    if kind == "rand":  # anywhere in the range
        v = [rng.randrange(top) for _ in range(n)]
    elif kind == "top":  # the upper half only: every value has the top bit set
        v = [rng.randrange(top // 2, top) for _ in range(n)]
    elif kind == "steps":  # m * 2^(w-4), m < 16
        v = [rng.randrange(16) * (top // 16) for _ in range(n)]
    else:  # the two ends of the range
        v = [rng.choice([0, 1, top - 1, top - 2, top // 2]) for _ in range(n)]
    if max(v) < top // 2:
        v[rng.randrange(n)] = rng.randrange(top // 2, top)
    if max(v) - min(v) < top // 64:  # spread comparable to the magnitude (and never a constant vector)
        v[0] = (v[-1] + top // 2) % top
    return [fr(x * unit) for x in v]


def unsigned_center(rng, vec):
    """a number written for `center` next to unsigned data: one of the data values, a small or a negative integer,
    a dyadic rational, the middle of the range"""
    vals = [Fraction(v) for v in vec]
    r = rng.random()
    if r < 0.3:
        return fr(rng.choice(vals))
    if r < 0.5:
        return fr(max(vals) // 2 or 1)
    if r < 0.7:
        return fr(rng.choice([1, 2, 3, 7, 100]))
    if r < 0.85:
        return fr(-rng.choice([1, 3, 16, 200]))
    return fr(Fraction(rng.randint(1, 64), rng.choice([2, 4])))


def big_int_vector(rng, n, dtype=None):
    """integers m * 2^e, |m| <= 9 (exact as floats, spread comparable to magnitude), whose squares do not fit the
    integer type they can be stored in (>= 2^16 for int32, >= 2^32 for int64)"""
    e = rng.choice([16, 20, 27] if dtype == "int32" else [16, 20, 27, 31, 33, 40, 50, 59])
    v = [rng.randint(-9, 9) for _ in range(n)]
    if len(set(v)) < 2:
        v[0], v[-1] = 1, -3
    return [fr(m * 2 ** e) for m in v]


def gen_scale(rng):
    fn = rng.choice(["scale", "scale", "scale", "center", "standardize"])
    calls = []
    # "any magnitude": a common power-of-two factor 2^e, e in -60..60, on the fitting vector (and usually on the
    # follow-ups); being a power of two it changes no rounding, so every comparison below is made relative to
    # the magnitude of the data, never absolute
    mag = rng.choice(MAG_EXPONENTS) if rng.random() < 0.4 else 0
    ncalls = rng.choice([1, 2, 2, 3])
    route = "direct"
    if rng.random() < 0.2:
        route = "formula"
        ncalls = 2
    # unsigned / logical storage (numpy arrays, lists of numpy scalars, Series): the numbers need the full width of
    # the type, so arithmetic done IN the type would wrap around; mostly with the centre switched off or given
    # (through a formula: a data-frame column / arrow array of that type)
    ustore = rng.choice(UNSIGNED + UNSIGNED + ["bool"]) if rng.random() < 0.18 else None
    for i in range(ncalls):
        kind0 = rng.choice(["small", "big", "dyadic", "offset"]) if route == "formula" else None
        fni = fn if (route == "formula" or rng.random() < 0.8) else rng.choice(["scale", "center", "standardize"])
        c = dict(fn=fni, data=rand_vector(rng, kind=kind0 if i == 0 else rng.choice(["small", "big", "dyadic"])))
        udtype = None
        if ustore and (i == 0 or route == "formula" or rng.random() < 0.7):
            udtype = ustore if (i == 0 or route == "formula" or rng.random() < 0.7) else rng.choice(UNSIGNED + ["bool"])
            c["data"] = unsigned_vector(rng, len(c["data"]), udtype)
        elif route == "direct" and rng.random() < 0.12:
            c["data"] = big_int_vector(rng, len(c["data"]))
        if route == "direct":
            n = len(c["data"])
            if rng.random() < 0.1:
                c["bad"] = True
                c["pos"], c["kw"] = rand_bad_written(rng, fni, n)
            else:
                force = None
                if udtype and fni != "center" and rng.random() < 0.6:
                    force = dict(center=maybe_typed(rng, False if rng.random() < 0.5 else unsigned_center(rng, c["data"])))
                    if rng.random() < 0.7:
                        force["rescale" if fni == "standardize" else "scale"] = maybe_typed(rng, True)
                c["pos"], c["kw"] = rand_written(rng, fni, n, force)
        if mag and not udtype and "bad" not in c and not (route == "direct" and int_storable(c["data"], "int64") and rng.random() < 0.3):
            e = mag if (i == 0 or rng.random() < 0.7) else rng.choice(MAG_EXPONENTS + [0])
            c["data"] = shift_mag(c["data"], e)
        if route == "direct":
            boxed(rng, c, c["data"], dtype=udtype)
        calls.append(c)
    state = {}
    if route == "direct" and rng.random() < 0.15:  # pre-seeded (possibly partial) state
        if rng.random() < 0.6:
            state["ddof"] = fr(rng.choice([0, 1, 2]))
        if rng.random() < 0.6:
            state["center"] = rng.choice([None, fr(Fraction(rng.randint(-8, 8), 2))])
        if rng.random() < 0.6:
            state["scale"] = rng.choice([None, fr(Fraction(rng.randint(1, 9), 2)), fr(0)])
    case = dict(kind="scale", route=route, state=state, calls=calls, mag=mag)
    if route == "formula" and (ustore or rng.random() < 0.5):
        # the arguments written in the formula (the same text is evaluated again on the follow-up data)
        n = len(calls[0]["data"])
        force = None
        if ustore and fn != "center" and rng.random() < 0.7:
            force = dict(center=maybe_typed(rng, False if rng.random() < 0.5 else unsigned_center(rng, calls[0]["data"])))
        pos, kw = rand_written(rng, fn, n, force)
        tame = lambda a: fr(2) if arg_value(a) in (fr(n), fr(n + 1)) else a  # noqa: E731  (all-NaN columns are dropped rows)
        pos = [tame(a) for a in pos]
        kw = [[k, tame(a)] for k, a in kw]
        for cc in calls:
            cc["pos"], cc["kw"] = list(pos), [list(k) for k in kw]
    if route == "formula":
        case["frame"] = rng.choice(["pandas", "pandas", "arrow"])
        fits = [d for d in INT_TYPES if all(int_storable(cc["data"], d) for cc in calls)]
        fits += [d for d in NARROW_FLOATS if all(float_storable(cc["data"], d) for cc in calls)
                 and (d != "float16" or case["frame"] == "pandas")]
        if ustore:
            case["dtype"] = ustore
        elif fits and rng.random() < 0.5:
            case["dtype"] = rng.choice(fits)
    return case


def rand_poly_vector(rng, n=None, degree=0):
    n = n or rng.choice([2, 3, 4, 5, 6, 8, 12, 20, 30])
    kind = rng.choice(["small", "small", "small", "mid", "dyadic", "few", "bigoff"])
    if kind == "bigoff" and degree > 3:
        # clustered values far from 0 with a high degree are too ill-conditioned in floats for a 1e-9 comparison
        kind = "mid"
    if kind == "small":
        v = [Fraction(rng.randint(-9, 9)) for _ in range(n)]
    elif kind == "mid":
        v = [Fraction(rng.randint(-1000, 1000)) for _ in range(n)]
    elif kind == "dyadic":
        v = [Fraction(rng.randint(-64, 64), rng.choice([1, 2, 4, 8])) for _ in range(n)]
    elif kind == "few":
        pool = [Fraction(rng.randint(-5, 5)) for _ in range(rng.choice([1, 2, 3]))]
        v = [rng.choice(pool) for _ in range(n)]
    else:
        base = rng.randint(-(2 ** 20) + 100, 2 ** 20 - 100)
        v = [Fraction(base + rng.randint(-20, 20)) for _ in range(n)]
    out = [fr(x) for x in v]
    if rng.random() < 0.4:
        for _ in range(rng.choice([1, 1, 2, 3])):
            out[rng.randrange(n)] = None
    return out


def written_poly(call):
    """(positional list, [(keyword, value)]) written after `x`; older cases: `poly(x, degree, raw=raw)`"""
    if "pos" in call or "kw" in call:
        return list(call.get("pos", [])), [tuple(p) for p in call.get("kw", [])]
    return [call["degree"]], [("raw", call["raw"])]


def rand_poly_written(rng, degree, raw):
    """one of the spellings of `poly(x, degree, raw)`: positional / keyword / default (degree = 1, raw = False),
    `raw` also as the integers 0 / 1, `degree = 1` also as `True`"""
    rawv = maybe_typed(rng, rng.choice([raw, raw, int(raw)]), 0.25)
    # (a float is no degree: `range` / `numpy.empty` refuse it; `raw` is only tested for truth)
    degv = maybe_typed(rng, True if (degree == 1 and rng.random() < 0.1) else degree, 0.25, floats_ok=False)
    r = rng.random()
    if degree == 1 and not raw and r < 0.2:
        return [], []
    if degree == 1 and r < 0.3:
        return [], [["raw", rawv]]
    if not raw and r < 0.45:
        return ([degv], []) if rng.random() < 0.5 else ([], [["degree", degv]])
    if r < 0.6:
        return [degv, rawv], []
    if r < 0.8:
        kws = [["degree", degv], ["raw", rawv]]
        rng.shuffle(kws)
        return [], kws
    return [degv], [["raw", rawv]]


def rand_poly_bad(rng, degree, raw):
    how = rng.choice(["unknown", "toomany", "twice"])
    if how == "unknown":
        return [degree], [[rng.choice(["deg", "Raw", "center", "ddof"]), rng.choice([True, False, 2])]]
    if how == "toomany":
        return [degree, raw, rng.choice([True, 1, 0])], []
    return [degree], [["degree", degree], ["raw", raw]]


def boxed_poly(rng, call):
    vec = call["x"]
    kind = rng.choice(["ndarray", "ndarray", "list", "series", "nwseries"])
    call["container"] = kind
    dtypes = ["float64", "float64"]
    if all(v is not None for v in vec):
        dtypes += [d for d in INT_TYPES if int_storable(vec, d)]
    call["dtype"] = call.pop("store", None) or rng.choice(dtypes)


def gen_poly(rng):
    degree = rng.choice([0, 1, 1, 2, 2, 3, 3, 4, 5, 6])
    raw = rng.random() < 0.2
    # unsigned / logical storage holding numbers that need the full width: integer powers taken IN the type would wrap
    # around (raw basis), the orthogonal basis is computed from the numbers (wide types: degree <= 3, as for the
    # magnitudes 2^e below)
    ustore = rng.choice(UNSIGNED + UNSIGNED + ["bool"]) if rng.random() < 0.15 else None
    if ustore:
        raw = rng.random() < 0.6
        if ustore in ("uint32", "uint64") and not raw:
            degree = min(degree, 3)

    def uvec(n):
        return unsigned_vector(rng, n, ustore, ("rand", "rand", "top", "steps") + (("ends",) if raw else ()))

    if degree >= 1 and rng.random() < 0.15:
        # through a formula: fit with model_matrix, replay with model_spec.get_model_matrix (same degree, no NaN)
        def vec():
            if ustore:
                return uvec(rng.choice([2, 3, 4, 5, 6, 8, 12, 20, 30]))
            return [v for v in rand_poly_vector(rng, degree=degree) if v is not None]
        c = dict(kind="poly", route="formula",
                 calls=[dict(x=vec(), degree=degree, raw=raw), dict(x=vec(), degree=degree, raw=raw)])
        fits = [d for d in INT_TYPES if all(int_storable(cc["x"], d) for cc in c["calls"])]
        if ustore:
            c["dtype"] = ustore
        elif fits and rng.random() < 0.5:
            c["dtype"] = rng.choice(fits)  # an integer column of the data frame
        c["frame"] = rng.choice(["pandas", "pandas", "arrow"])
        return c
    calls = [dict(x=uvec(len(rand_poly_vector(rng, degree=degree))) if ustore else rand_poly_vector(rng, degree=degree),
                  degree=degree, raw=raw)]
    for _ in range(rng.choice([0, 1, 1, 2])):
        d2 = rng.choice([degree, degree, degree, max(0, degree - 1), degree + 1])
        if ustore and rng.random() < 0.7:
            calls.append(dict(x=uvec(rng.choice([2, 3, 4, 6, 12])), degree=d2, raw=raw))
        else:
            calls.append(dict(x=rand_poly_vector(rng, degree=max(degree, d2)), degree=d2, raw=raw))
    for cc in calls:
        if ustore and int_storable([v for v in cc["x"] if v is not None], ustore) and None not in cc["x"]:
            cc["store"] = ustore
    if not ustore and max(cc["degree"] for cc in calls) <= 3 and rng.random() < 0.25:
        # "any magnitude": the whole history times 2^e (exact in binary floating point; alpha scales with 2^e,
        # norms2[k] with 2^(2ek), the orthonormal columns not at all)
        e = rng.choice([-30, -20, -10, 10, 20, 30])
        for cc in calls:
            cc["x"] = [None if v is None else fr(Fraction(v) * Fraction(2) ** e) for v in cc["x"]]
    for call in calls:
        call["pos"], call["kw"] = rand_poly_written(rng, call["degree"], call["raw"])
        boxed_poly(rng, call)
    r = rng.random()
    if r < 0.08:  # an ill-formed last call
        call = dict(x=rand_poly_vector(rng, degree=degree), degree=degree, raw=raw, bad=True)
        call["pos"], call["kw"] = rand_poly_bad(rng, degree, raw)
        boxed_poly(rng, call)
        calls.append(call)
    elif r < 0.12:  # a negative degree (last call)
        call = dict(x=rand_poly_vector(rng, degree=1), degree=-rng.choice([1, 1, 2, 5]), raw=raw)
        call["pos"], call["kw"] = [call["degree"]], [["raw", raw]]
        boxed_poly(rng, call)
        calls.append(call)
    return dict(kind="poly", calls=calls)


# --- how the stateful transform is REFERRED TO in the expression (the callee of the call node), where the call
# --- sits in the factor, and through which entry point the expression is evaluated.  The property quantifies over
# --- "all follow-up vectors" for scale/center/poly; it makes no exception for the spelling of the callee.
STATEFUL = ["scale", "center", "standardize", "poly"]
REF_FORMS = ["bare", "alias", "module", "dotted", "namespace", "nested", "klass", "subscript", "index", "call"]
REF_POSITIONS = ["top", "I", "braces", "mul1"]
REF_ENTRIES = ["mm_spec", "mm_spec", "formula_obj", "sugar_frame", "stateful_eval"]


REF_CONTEXT_NAMES = {"T", "PC", "formulaic", "ns", "H", "D", "L", "get"} | {f"my_{k}" for k in STATEFUL}


def ref_callee(form, fn):
    """the text of the callee for transform `fn` in reference form `form` (names are bound by `_ref_context`)"""
    mod, dotted = ("PC", "formulaic.transforms.patsy_compat") if fn == "standardize" else ("T", "formulaic.transforms")
    return {
        "bare": fn,  # the preloaded name
        "alias": f"my_{fn}",  # another plain name bound to the same callable in the context
        "module": f"{mod}.{fn}",  # attribute of a module object in the context
        "dotted": f"{dotted}.{fn}",  # attribute chain starting at the package
        "namespace": f"ns.{fn}",  # attribute of a plain namespace object
        "nested": f"ns.t.{fn}",  # attribute of an attribute
        "klass": f"H.{fn}",  # static attribute of a class
        "subscript": f"D['{fn}']",  # item of a dict
        "index": f"L[{STATEFUL.index(fn)}]",  # item of a list
        "call": f"get('{fn}')",  # result of a call
    }[form]


def _lit(a):
    """python text for a flag / exact number (a typed argument: the numpy constructor, `np` being preloaded)"""
    return arg_text(a)


# --- the NAME of the data column the transform is applied to.  Anything but a plain identifier is written between
# --- back-quotes; the library then evaluates the code with a stand-in identifier that it chooses by looking at the
# --- other names in the data / context.  "All follow-up vectors" makes no exception for what the column is called,
# --- nor for what ELSE the follow-up data set contains.
VAR_NAMES = {
    # Python keywords (`str.isidentifier` says yes, the parser says no)
    "keyword": ["class", "if", "for", "lambda", "None", "True", "import", "is", "not", "with", "in", "def"],
    # identifiers that Python's parser would rename (NFKC normalisation changes them)
    "unstable": ["\ufb01", "\u00aab", "\uff58", "\u212b", "\u210c", "x\u00b2", "\ufb01_1", "\u2160x"],
    # no identifiers at all
    "nonident": ["a b", "1x", "a-b", "my.var", "x y z", "\u00e9 t", "x ", "a+b", "class if", "\u20ac", "2", "a  b", "if "],
    # identifiers used as they are (controls)
    "plain": ["\u00e9t\u00e9", "x_1", "_x", "X", "class_", "a_b"],
}


def var_usable_as_is(name):
    """an identifier Python's parser reads back unchanged"""
    return name.isidentifier() and not keyword.iskeyword(name) and unicodedata.normalize("NFKC", name) == name


def alias_like(name):
    """column names that look like the stand-ins a sanitiser may pick for `name` at fit or replay time (ASCII word
    characters kept, the rest `_`, numeric suffixes, leading / trailing underscore, the NFKC form)"""
    base = "".join(ch if re.match(r"\w", ch, re.ASCII) else "_" for ch in name)
    if not base or base[0].isdigit():
        base = "_" + base
    cands = [base, f"{base}_1", f"{base}_1", f"{base}_2", f"{base}_3", f"_{base}", f"{base}_",
             unicodedata.normalize("NFKC", name), f"_formulaic_{base}"]
    out = []
    for cnd in cands:
        if cnd != name and cnd not in out:
            out.append(cnd)
    return out


def ref_var(c):
    """the data argument as it is written in the expression"""
    var = c.get("var")
    return "x" if var is None else f"`{var}`"


def ref_key_var(c):
    """the data argument as it appears in the key of the transform state: the code as the user wrote it, in the
    unparser's normal form (a name that needs no quoting loses its back-quotes)"""
    var = c.get("var")
    return "x" if var is None else (var if var_usable_as_is(var) else f"`{var}`")


def ref_inner(c, key=False):
    """the call expression itself, e.g. `T.scale(x, center=False, ddof=0)` (`key`: as the state is recorded under)"""
    c0 = c["calls"][0]
    x = ref_key_var(c) if key else ref_var(c)
    if c["kind"] == "poly":
        callee = ref_callee(c["form"], "poly")
        return f"{callee}({x}, {c0['degree']}, raw=True)" if c0["raw"] else f"{callee}({x}, {c0['degree']})"
    callee = ref_callee(c["form"], c0["fn"])
    pos, kws = written(c0)
    args = "".join(f", {_lit(a)}" for a in pos) + "".join(f", {k}={_lit(a)}" for k, a in kws)
    return f"{callee}({x}{args})"


def ref_expr(c, python=False):
    """the factor: the call at top level, inside another call, inside a quoted python fragment, inside arithmetic
    (all of them the identity on the values, so the observable is the transform's own output)"""
    inner = ref_inner(c)
    if c["pos"] == "top":
        return inner
    if c["pos"] == "I":
        return f"I({inner})"
    if c["pos"] == "braces":
        return f"({inner})" if python else "{" + inner + "}"
    return f"1 * {inner}" if python else "{1 * " + inner + "}"


def gen_ref(rng):
    fn = rng.choice(["scale", "scale", "scale", "center", "standardize", "poly", "poly"])
    where = dict(route="ref", form=rng.choice(REF_FORMS), pos=rng.choice(REF_POSITIONS), entry=rng.choice(REF_ENTRIES),
                 output=rng.choice(["pandas", "numpy"]))
    nfollow = rng.choice([1, 1, 2])
    # the column's name: 45% something that must be back-quoted, with unused columns named like its possible
    # stand-ins in the fitting and / or the follow-up data sets
    if rng.random() < 0.45:
        where["var"] = var = rng.choice(VAR_NAMES[rng.choice(["keyword", "keyword", "unstable", "unstable", "nonident", "nonident", "plain"])])
        # (an unused column must not be called like one of the context objects the callee is reached through: data
        # columns shadow the context, `H.center` would then be an attribute of the column)
        like = [nm for nm in alias_like(var) if nm not in REF_CONTEXT_NAMES]
        where["extra"] = [rng.sample(like, rng.choice([1, 1, 2, 3])) if rng.random() < (0.3 if i == 0 else 0.85) else []
                          for i in range(1 + nfollow)]
    # the column's storage type: 20% unsigned / logical, holding numbers that need the full width
    store = rng.choice(UNSIGNED + UNSIGNED + ["bool"]) if rng.random() < 0.2 else None
    if store:
        where["dtype"] = store
    if fn == "poly":
        degree = rng.choice([1, 2, 2, 3, 3, 4, 5])
        raw = rng.random() < (0.5 if store else 0.1)
        if store in ("uint32", "uint64") and not raw:
            degree = min(degree, 3)

        def vec():
            if store:
                return unsigned_vector(rng, rng.choice([2, 3, 4, 5, 6, 8, 12, 20, 30]), store,
                                       ("rand", "rand", "top", "steps") + (("ends",) if raw else ()))
            return [v for v in rand_poly_vector(rng, degree=degree) if v is not None]

        return dict(kind="poly", calls=[dict(x=vec(), degree=degree, raw=raw) for _ in range(1 + nfollow)], **where)
    mag = rng.choice(MAG_EXPONENTS) if (rng.random() < 0.3 and not store) else 0
    first = rand_vector(rng, kind=rng.choice(["small", "big", "dyadic", "offset", "two", "const"] if rng.random() < 0.1
                                             else ["small", "big", "dyadic", "offset"]))
    if store:
        first = unsigned_vector(rng, len(first), store)
    args = {}
    if fn != "center":  # the same written arguments are evaluated again on every follow-up data set
        if store and rng.random() < 0.6:
            args["center"] = maybe_typed(rng, False if rng.random() < 0.5 else unsigned_center(rng, first), 0.2)
        elif rng.random() < 0.5:
            args["center"] = maybe_typed(rng, rand_arg(rng), 0.2)
        if rng.random() < 0.5:
            args["scale"] = maybe_typed(rng, rand_arg(rng), 0.2)
        if rng.random() < 0.5:
            args["ddof"] = fr(rng.choice([0, 1, 1, 2, Fraction(1, 2), len(first)]))
    # written positionally when the written arguments are a prefix of the parameter list
    params = WRITTEN_PARAMS[fn]
    keys = {"center": "center", "scale": "rescale" if fn == "standardize" else "scale", "ddof": "ddof"}
    named = [(keys[k], v) for k, v in args.items()]
    npos = 0
    if rng.random() < 0.4:
        while npos < len(named) and named[npos][0] == params[npos]:
            npos += 1
    # the data as a one-column scipy.sparse matrix (scale.py dispatches on it) where the entry point takes any object
    sparse = where["entry"] == "stateful_eval" and where["pos"] in ("top", "I") and rng.random() < 0.5 and not store
    calls = []
    for i in range(1 + nfollow):
        data = first if i == 0 else rand_vector(rng, kind=rng.choice(["small", "big", "dyadic"]))
        if store and i > 0:
            data = unsigned_vector(rng, len(data), store)
        if mag:
            data = shift_mag(data, mag if (i == 0 or rng.random() < 0.7) else rng.choice(MAG_EXPONENTS + [0]))
        call = dict(fn=fn, data=data, pos=[v for _, v in named[:npos]], kw=[list(k) for k in named[npos:]])
        if sparse:
            call.update(container="sparse", format=rng.choice(SPARSE_FORMATS), cols=[data])
        calls.append(call)
    return dict(kind="scale", state={}, calls=calls, mag=mag, **where)


# --- "any magnitude", taken literally: finite float64 vectors whose SQUARES leave the range of float64 (|x| > 1e150:
# --- overflow, |x| < 1e-150: underflow to 0) and vectors with a common offset more than 2^40 times their spread (a
# --- single-pass mean / alpha_0 is then rounded by more than the deviations it is subtracted from).  The model computes
# --- in exact rationals and the oracle asks for what the property states; formulaic computes naively in float64
# --- (known finding C13-F1, see `extreme_data` / `classify`).  A few cases per run, so that the finding stays visible.
F1_BIG, F1_SMALL, F1_OFFSET = 1e150, 1e-150, 2.0 ** 40


def gen_extreme(rng):
    how = rng.choice(["huge", "tiny", "offset"])
    n = rng.choice([3, 4, 6, 7, 12, 20])

    def vec():
        if how == "offset":
            base = 2 ** rng.choice([50, 52])
            ks = rng.sample(range(0, 40), n) if rng.random() < 0.5 else list(range(n))
            return [fr(base + k) for k in ks]
        e = rng.choice([600, 700, 1000]) * (1 if how == "huge" else -1)
        ks = rng.sample(range(1, 33), n)
        return [fr(Fraction(k) * Fraction(2) ** e) for k in ks]

    if rng.random() < 0.5:
        fn = rng.choice(["scale", "scale", "standardize", "center"])
        calls = []
        for _ in range(rng.choice([1, 2])):
            call = dict(fn=fn, data=vec(), pos=[], kw=[], container="ndarray", dtype="float64")
            if fn != "center" and rng.random() < 0.4:
                call["kw"] = [["ddof", rng.choice([fr(0), fr(1), fr(2)])]]
            calls.append(call)
        return dict(kind="scale", route="direct", state={}, calls=calls, mag=0, extreme=how)
    degree = rng.choice([1, 2, 2, 3])
    calls = []
    for _ in range(rng.choice([1, 2])):
        calls.append(dict(x=vec(), degree=degree, raw=False, pos=[degree], kw=[], container="ndarray", dtype="float64"))
    return dict(kind="poly", calls=calls, extreme=how)


def extreme_data(c):
    """the signature of C13-F1, read off the case alone: some data vector of the history has max|x| > 1e150, or
    0 < max|x| < 1e-150, or max|x| > 2^40 * (max x - min x) > 0"""
    if c.get("kind") not in ("scale", "poly"):
        return None
    for call in c.get("calls", []):
        xs = [fl(v) for v in (call.get("x") if c["kind"] == "poly" else call.get("data")) or [] if v is not None]
        if not xs:
            continue
        mag, spread = max(abs(v) for v in xs), max(xs) - min(xs)
        if mag > F1_BIG:
            return "huge"
        if 0 < mag < F1_SMALL:
            return "tiny"
        if spread > 0 and mag > F1_OFFSET * spread:
            return "offset"
    return None


# --- ONE textual call executed SEVERAL times: `np.column_stack([scale(v) for v in (x, y)])`.  Each execution is fitted
# --- on the vector it is handed, so each result must meet the contract on that vector (known finding C13-F2: the
# --- library keeps one state entry per call TEXT, the executions after the first re-apply the first one's statistics).
COMP_FORMS = ["np.column_stack([{call} for v in ({vars})])", "np.stack([{call} for v in ({vars})], axis=1)",
              "np.column_stack(list(map(lambda v: {call}, [{vars}])))"]


def gen_comp(rng):
    fn = rng.choice(["scale", "scale", "center", "standardize"])
    n = rng.choice([3, 4, 6, 12])
    vecs = []
    while len(vecs) < rng.choice([2, 2, 3]):
        v = rand_vector(rng, n=n, kind=rng.choice(["small", "big", "dyadic", "offset"]))
        if len(set(v)) > 1:
            vecs.append(v)
    return dict(kind="comp", fn=fn, vectors=vecs, form=rng.randrange(len(COMP_FORMS)))


def comp_expr(c):
    names = ["x", "y", "z"][: len(c["vectors"])]
    return COMP_FORMS[c["form"]].format(call=f"{c['fn']}(v)", vars=", ".join(names))


def impl_comp(c):
    from formulaic import model_matrix

    names = ["x", "y", "z"][: len(c["vectors"])]
    df = pandas.DataFrame({nm: [fl(t) for t in v] for nm, v in zip(names, c["vectors"])})
    with numpy.errstate(all="ignore"):
        mm = model_matrix("0 + " + comp_expr(c), df, na_action="ignore")
    arr = as_matrix(mm)
    tstate = mm.model_spec.transform_state
    entry = dict(tstate[f"{c['fn']}(v)"]) if f"{c['fn']}(v)" in tstate else (dict(next(iter(tstate.values()))) if len(tstate) == 1 else {})
    return dict(cols=[[jf(t) for t in arr[:, j]] for j in range(arr.shape[1])], nstate=len(tstate), state=_scale_state_obs(entry))


def comp_first(c, o):
    """the first execution as a case / observation of kind `scale` (it is the one the recorded state belongs to)"""
    pc = dict(kind="scale", route="formula", state={}, mag=0,
              calls=[dict(fn=c["fn"], data=c["vectors"][0], pos=[], kw=[])])
    po = dict(o) if "harness_exception" in o else dict(calls=[dict(out=(o.get("cols") or [[]])[0], state=o.get("state", {}))])
    return pc, po


def comp_failures(c, o):
    """[(execution index, reason)]: executions whose result does not meet the contract on the vector it was fitted on"""
    out = []
    cols = o.get("cols") or []
    if len(cols) != len(c["vectors"]):
        return [(0, f"{len(cols)} columns for {len(c['vectors'])} executions")]
    ddof = _ddof_value(DOC_DEFAULTS[c["fn"]]["ddof"])
    for j, (v, col) in enumerate(zip(c["vectors"], cols)):
        x = _arr([fl(t) for t in v])
        if any(isinstance(t, str) for t in col) or len(col) != len(v):
            out.append((j, "nan/inf on a non-constant finite vector"))
            continue
        y = _arr(col)
        mag = float(numpy.max(numpy.abs(x)))
        if c["fn"] == "center":
            if abs(y.mean()) > 1e-9 * mag or float(numpy.max(numpy.abs(y - (x - x.mean())))) > 1e-9 * mag:
                out.append((j, f"mean of the centred vector is {y.mean()!r}, not 0"))
            continue
        sd = math.sqrt(float(((y - y.mean()) ** 2).sum()) / (len(x) - ddof))
        if abs(y.mean()) > 1e-9 or abs(sd - 1.0) > 1e-9:
            out.append((j, f"mean {y.mean()!r} and standard deviation (ddof={ddof}) {sd!r}, not 0 and 1"))
    return out


def oracle_comp(c, o):
    bad = comp_failures(c, o)
    if not bad:
        return None
    j, reason = bad[0]
    return (f"{comp_expr(c)}: execution {j} of the call {c['fn']}(v) (on the vector {['x', 'y', 'z'][j]} = "
            f"{[fl(t) for t in c['vectors'][j]][:4]}…) gives {reason}; {o.get('nstate')} state entr(y/ies) recorded for "
            f"{len(c['vectors'])} executions")


INT_RANGE = {"int64": (-(2 ** 63), 2 ** 63 - 1), "int32": (-(2 ** 31), 2 ** 31 - 1),
             "int16": (-(2 ** 15), 2 ** 15 - 1), "int8": (-(2 ** 7), 2 ** 7 - 1),
             "uint8": (0, 2 ** 8 - 1), "uint16": (0, 2 ** 16 - 1), "uint32": (0, 2 ** 32 - 1), "uint64": (0, 2 ** 64 - 1),
             "bool": (0, 1)}
# the storage types whose arithmetic is modular / logical rather than that of the numbers they hold
SIGNED = ["int64", "int32"]
UNSIGNED = ["uint8", "uint16", "uint32", "uint64"]
WIDTH = {"uint8": 8, "uint16": 16, "uint32": 32, "uint64": 64}
INT_TYPES = SIGNED + UNSIGNED + ["bool"]


def elem_probe_indices(name, dtype):
    """probe indices k (see Model.Elementwise.exactAt: exp2/exp10 are probed at k, log2/log10 at 2^k / 10^k);
    for the integer storage types only points that the type can hold"""
    if name == "exp10":
        return {"float64": range(-5, 31), "int64": range(-5, 31), "int32": range(-3, 13)}[dtype]
    if name == "log10":
        return {"float64": range(0, 23), "int64": range(0, 19), "int32": range(0, 10)}[dtype]
    if name == "exp2":
        return {"float64": range(-30, 61), "int64": range(-30, 63), "int32": range(-10, 41)}[dtype]
    if name == "log2":
        return {"float64": range(-30, 61), "int64": range(0, 63), "int32": range(0, 31)}[dtype]
    return [0] if dtype != "int32" else []


ELEM_BOXES = ["ndarray", "scalar", "npscalar", "zerodim", "list", "series", "nwseries"]


def gen_elem_exact():
    for name in ELEM_NAMES:
        for dtype in ("float64", "int64", "int32"):
            for k in elem_probe_indices(name, dtype):
                if dtype == "float64":
                    via = "formula" if k % 5 == 2 else "direct"
                else:  # integer columns: every exp10 probe also through a formula, the others every third
                    via = "formula" if (name == "exp10" or k % 3 == 1) else "direct"
                c = dict(kind="elem", name=name, k=k, via=via, dtype=dtype)
                # every container the library (or a caller) passes: spread deterministically over the probes
                if via == "direct":
                    c["box"] = ELEM_BOXES[(k + len(name)) % len(ELEM_BOXES)]
                else:
                    c["frame"] = "arrow" if k % 2 == 0 else "pandas"
                yield c


def gen_elem_rand(rng):
    name = rng.choice(ELEM_NAMES)
    dtype = rng.choice(["float64", "float64", "int64", "int32"])
    if dtype != "float64":  # integer-typed input (an integer column of a data frame)
        if name.startswith("log"):
            x = Fraction(rng.randint(1, rng.choice([100, 10 ** 6, INT_RANGE[dtype][1]])))
        elif name == "exp":
            x = Fraction(rng.randint(-30, 40))
        elif name == "exp2":
            x = Fraction(rng.randint(-60, 62))
        else:
            x = Fraction(rng.randint(-15, 40))
    elif name.startswith("log"):
        x = Fraction(rng.randint(1, 2 ** 30), 2 ** rng.choice([0, 5, 10, 20, 30]))
    elif name == "exp":
        x = Fraction(rng.randint(-(2 ** 12), 2 ** 12), 2 ** 8)  # |x| <= 16
    elif name == "exp2":
        x = Fraction(rng.randint(-(2 ** 14), 2 ** 14), 2 ** 8)  # |x| <= 64
    else:
        x = Fraction(rng.randint(-(2 ** 12), 2 ** 12), 2 ** 8)
    c = dict(kind="elemrand", name=name, x=fr(x), via=rng.choice(["direct", "direct", "formula"]), dtype=dtype)
    if c["via"] == "direct":
        c["box"] = rng.choice(ELEM_BOXES)
    else:
        c["frame"] = rng.choice(["pandas", "arrow"])
    return c


# --- NARROW storage: numpy's log / exp ufuncs pick their loop by the input type - float16 for bool / int8 / uint8 /
# --- float16 columns, float32 for int16 / uint16 / float32 - so the preloaded names compute the function their name
# --- denotes to 3 resp. 7 digits only, and overflow at 6.5e4 resp. 3.4e38 (known finding C13-F3, see `classify`).
NARROW = {"bool": "float16", "int8": "float16", "uint8": "float16", "float16": "float16",
          "int16": "float32", "uint16": "float32", "float32": "float32"}


def gen_elem_narrow(rng):
    name = rng.choice(ELEM_NAMES)
    dtype = rng.choice(sorted(NARROW))
    if dtype.startswith("float"):
        x = Fraction(rng.randint(1, 200), 4) if name.startswith("log") else Fraction(rng.randint(-40, 60), 4)
    elif dtype == "bool":
        x = Fraction(1)
    else:
        lo, hi = INT_RANGE[dtype]
        x = Fraction(rng.randint(1, min(hi, 1000))) if name.startswith("log") else Fraction(rng.randint(max(lo, -10), 40))
    c = dict(kind="elemrand", name=name, x=fr(x), dtype=dtype, via=rng.choice(["direct", "formula"]) if dtype != "bool" else "direct")
    if c["via"] == "direct":
        c["box"] = rng.choice(["ndarray", "series", "npscalar"])
    else:
        c["frame"] = "pandas"
    return c


def narrow_loop_result(c, o):
    """is every observed value of the case what the named function gives when it is evaluated in the narrow floating
    type numpy selects for the storage type (to 4 units of that type's precision; inf / 0 beyond its range)?"""
    kind = NARROW.get(c.get("dtype"))
    if kind is None or c.get("kind") != "elemrand":
        return False
    info = numpy.finfo(kind)
    want = REAL[c["name"]](fl(c["x"]))
    seen = False
    for via in ("direct", "formula"):
        if via not in o:
            continue
        v = o[via]
        if isinstance(v, str) and " in a" in v:  # "<value> in a <box>, <value> in an ndarray"
            return False
        if isinstance(v, str) and v.startswith("raised"):
            return False
        v = float(v)
        seen = True
        if abs(want) > float(info.max):
            ok = math.isinf(v)
        elif abs(want) < float(info.smallest_subnormal):
            ok = v == 0.0
        else:
            ok = math.isfinite(v) and abs(v - want) <= 4 * float(info.eps) * max(abs(want), float(info.tiny))
        if not ok:
            return False
    return seen


# --- the remaining shims of patsy_compat.py / identity.py: Q (a data column by its name), Treatment (treatment coding
# --- with a reference level), I (the identity)
Q_NAMES = ["x", "y", "my var", "a.b", "log", "scale", "np", "1x", "x y z", "data", "context", "\u00e9t\u00e9", "a-b", "_state", "x ", "(x)"]


def gen_q(rng):
    names = rng.sample(Q_NAMES, rng.choice([1, 2, 3, 5]))
    ctx = rng.sample(Q_NAMES, rng.choice([0, 1, 2]))
    r = rng.random()
    variable = rng.choice(names) if r < 0.7 else (rng.choice(ctx) if ctx and r < 0.85 else rng.choice(Q_NAMES))
    env = rng.choice(["materializer", "materializer", "materializer", "named", "plain", "none"])
    c = dict(kind="Q", columns=names, context=ctx, variable=variable, env=env)
    if env == "materializer":
        c["frame"] = rng.choice(["pandas", "pandas", "arrow"])
        c["quote"] = rng.choice(["'", '"'])
    if env == "named":
        c["layer"] = rng.choice(["data", "data", "frame", "context"])
    return c


def gen_treatment(rng):
    if rng.random() < 0.6:
        pool = ["a", "b", "c", "d", "B", "aa", "b c", "T.a", "z"]
        levels = sorted(rng.sample(pool, rng.choice([2, 3, 3, 4, 5])))
        outsider = "w"
    else:
        levels = sorted(rng.sample(range(-3, 12), rng.choice([2, 3, 4])))
        outsider = 99
    r = rng.random()
    ref = None if r < 0.2 else (outsider if r < 0.3 else rng.choice(levels))
    rows = levels + [rng.choice(levels) for _ in range(rng.choice([0, 2, 5]))]
    rng.shuffle(rows)
    return dict(kind="treatment", levels=levels, rows=rows, reference=ref, intercept=rng.random() < 0.6,
                spelling=rng.choice(["pos", "kw"]) if ref is not None else "unset",
                frame=rng.choice(["pandas", "pandas", "arrow"]))


def gen_identity(rng):
    vec = rand_vector(rng, kind=rng.choice(["small", "big", "dyadic"]))
    c = dict(kind="identity", data=vec, box=rng.choice(ELEM_BOXES + ["frame", "dict", "str"]))
    c["dtype"] = rng.choice(["float64"] + [d for d in ("int64", "int32") if int_storable(vec, d)])
    c["frame"] = rng.choice(["pandas", "arrow"])
    return c


def cases(rng, tier):
    ns, npoly, nrand = {"quick": (220, 220, 120), "thorough": (3000, 3000, 1500), "search": (150, 150, 60)}[tier]
    nref = {"quick": 240, "thorough": 3000, "search": 200}[tier]
    yield dict(kind="names")
    yield from gen_elem_exact()
    for _ in range(nrand):
        yield gen_elem_rand(rng)
    for _ in range(ns):
        yield gen_scale(rng)
    for _ in range(npoly):
        yield gen_poly(rng)
    for _ in range(nref):
        yield gen_ref(rng)
    nshim = {"quick": 60, "thorough": 600, "search": 30}[tier]
    for _ in range(nshim):
        yield gen_q(rng)
        yield gen_treatment(rng)
        yield gen_identity(rng)
    for _ in range({"quick": 12, "thorough": 60, "search": 4}[tier]):
        yield gen_extreme(rng)
    for _ in range({"quick": 10, "thorough": 60, "search": 4}[tier]):
        yield gen_comp(rng)
    for _ in range({"quick": 24, "thorough": 200, "search": 8}[tier]):
        yield gen_elem_narrow(rng)


def describe(c):
    if c["kind"] == "names":
        return "names"
    if c["kind"] == "Q":
        return f"Q:{c['env']}:{'in' if c['variable'] in c['columns'] else 'out'}"
    if c["kind"] == "treatment":
        return f"Treatment:{'unset' if c['reference'] is None else 'level' if c['reference'] in c['levels'] else 'outsider'}:icpt={int(c['intercept'])}"
    if c["kind"] == "identity":
        return f"I:{c['box']}"
    if c.get("extreme"):
        return f"{c['kind']}:extreme:{c['extreme']}"
    if c["kind"] == "comp":
        return f"comp:{c['fn']}:k={len(c['vectors'])}:form={c['form']}"
    if c.get("route") == "ref":
        fn = "poly" if c["kind"] == "poly" else c["calls"][0]["fn"]
        tag = ""
        if c.get("var"):
            kind = next((k for k, names in VAR_NAMES.items() if c["var"] in names), "other")
            tag += f":name={kind}{'+unused' if any(c.get('extra') or []) else ''}"
        if c.get("dtype"):
            tag += f":{c['dtype']}"
        return f"ref:{fn}:{c['entry']}{tag}" if tag else f"ref:{fn}:{c['form']}:{c['pos']}:{c['entry']}"
    if c["kind"] == "scale":
        c0 = c["calls"][0]
        m = c.get("mag", 0)
        store = c.get("dtype") or c0.get("dtype")
        if store in UNSIGNED or store == "bool":
            return f"scale:{c0['fn']}:{c['route']}:{store}:centre={'mean' if (effective(c0) or {}).get('center') is True else 'other'}"
        if store in NARROW_FLOATS:
            return f"scale:{c0['fn']}:{c['route']}:{store}:mag={'tiny' if m < 0 else 'huge' if m > 0 else 'unit'}"
        return f"scale:{c0['fn']}:{c['route']}:calls={len(c['calls'])}:pre={len(c['state'])}:mag={'tiny' if m < 0 else 'huge' if m > 0 else 'unit'}"
    if c["kind"] == "poly":
        c0 = c["calls"][0]
        store = c.get("dtype") or c0.get("dtype")
        if store in UNSIGNED or store == "bool":
            return f"poly:{c.get('route', 'direct')}:{store}:raw={int(c0['raw'])}"
        return f"poly:{c.get('route', 'direct')}:d={c0['degree']}:raw={int(c0['raw'])}:nan={int(any(v is None for v in c0['x']))}:calls={len(c['calls'])}"
    return f"{c['kind']}:{c['name']}:{c.get('dtype', 'float64')}"


def nontrivial(c):
    if c["kind"] == "names":
        return True
    if c["kind"] == "Q":
        return len(c["columns"]) > 1
    if c["kind"] == "treatment":
        return c["reference"] is not None
    if c["kind"] == "identity":
        return True
    if c["kind"] == "scale":
        return len(set(c["calls"][0]["data"])) > 1 and "scale" not in c["state"]
    if c["kind"] == "poly":
        return c["calls"][0]["degree"] >= 2 and not c["calls"][0]["raw"]
    if c["kind"] == "elem":
        return c["k"] != 0
    return True


# ----------------------------------------------------------------------------- implementation side


def _py_arg(a):
    return arg_object(a)


def _num(a):
    f = Fraction(a)
    return int(f) if f.denominator == 1 else float(f)


def _scale_state_obs(st):
    out = {}
    for k in ("ddof", "center", "scale"):
        if k in st:
            out[k] = None if st[k] is None else jf(numpy.asarray(st[k], dtype=float).item())
    extra = sorted(set(st) - {"ddof", "center", "scale"})
    if extra:
        out["extra_keys"] = extra
    return out


def _ref_context():
    """objects through which the four stateful transforms can be reached (the callables are the live TRANSFORMS
    entries; nothing is wrapped)"""
    import types

    import formulaic
    import formulaic.transforms as T
    import formulaic.transforms.patsy_compat as PC
    from formulaic.transforms import TRANSFORMS

    fns = {k: TRANSFORMS[k] for k in STATEFUL}
    ns = types.SimpleNamespace(t=types.SimpleNamespace(**fns), **fns)
    H = type("H", (), {k: staticmethod(v) for k, v in fns.items()})
    ctx = dict(T=T, PC=PC, formulaic=formulaic, ns=ns, H=H, D=dict(fns), L=[fns[k] for k in STATEFUL],
               get=lambda k: fns[k])
    ctx.update({f"my_{k}": v for k, v in fns.items()})
    return ctx


def _ref_sugar_frame(ctx, formula, frames, kw):
    """`model_matrix(...)` with its default `context=0`: the names are local variables of the calling frame"""
    from formulaic import model_matrix

    T, PC, formulaic, ns, H, D, L, get = (ctx[k] for k in ("T", "PC", "formulaic", "ns", "H", "D", "L", "get"))  # noqa: F841
    my_scale, my_center, my_standardize, my_poly = (ctx["my_" + k] for k in STATEFUL)  # noqa: F841
    mm = model_matrix(formula, frames[0], **kw)
    spec = mm.model_spec
    yield mm, spec.transform_state
    for d in frames[1:]:
        yield model_matrix(spec, d), spec.transform_state


def _ref_run(c, vectors):
    """evaluate the case's expression on the fitting vector, then on every follow-up vector with the state the
    LIBRARY recorded (the harness passes no `_state`); yields (values, transform-state mapping) per data set"""
    ctx = _ref_context()
    entry = c["entry"]
    var = c.get("var") or "x"
    dtype = c.get("dtype", "float64")
    extras = c.get("extra") or [[] for _ in vectors]

    def column(v):
        return numpy.array(v, dtype=numpy.float64).astype(dtype) if dtype != "float64" else numpy.array(v, dtype=numpy.float64)

    def unused(i, n):
        """the unused columns of data set i: numbers that are not the data"""
        return {nm: numpy.full(n, 1000.0 + 7 * j) + numpy.arange(n) for j, nm in enumerate(extras[i])}

    if entry == "stateful_eval":
        from formulaic.transforms import TRANSFORMS
        from formulaic.utils.stateful_transforms import stateful_eval

        state = {}
        for i, (call, v) in enumerate(zip(c["calls"], vectors)):
            x = make_container(call, call["data"]) if call.get("container") == "sparse" else pandas.Series(column(v))
            env = {**TRANSFORMS, **ctx, **{k: pandas.Series(u) for k, u in unused(i, len(v)).items()}, var: x}
            yield stateful_eval(ref_expr(c, python=True), env, None, state, None), state
        return
    from formulaic import Formula, model_matrix

    formula = "0 + " + ref_expr(c)
    frames = [pandas.DataFrame({var: column(v), **unused(i, len(v))}) for i, v in enumerate(vectors)]
    kw = dict(output=c["output"], na_action="ignore")
    if entry == "sugar_frame":
        yield from _ref_sugar_frame(ctx, formula, frames, kw)
        return
    if entry == "formula_obj":
        mm = Formula(formula).get_model_matrix(frames[0], context=ctx, **kw)
    else:
        mm = model_matrix(formula, frames[0], context=ctx, **kw)
    spec = mm.model_spec
    yield mm, spec.transform_state
    for d in frames[1:]:
        yield spec.get_model_matrix(d, context=ctx), spec.transform_state


def _ref_state(tstate, c):
    """the state recorded for the call: under its own text; failing that the only entry there is"""
    key = ref_inner(c, key=True)
    if key in tstate:
        return tstate[key]
    if len(tstate) == 1:
        return next(iter(tstate.values()))
    return {}


def ref_env_names(c, i):
    """the names the expression is evaluated among on data set i: the columns, the context, the preloaded transforms"""
    from formulaic.transforms import TRANSFORMS

    cols = [c.get("var") or "x"] + list((c.get("extra") or [[]] * len(c["calls"]))[i])
    return cols + sorted(_ref_context()) + list(TRANSFORMS)


SENTINEL = "verif_standin_of_the_column"


def ref_key_request(c):
    """what `Model.TransformKey.stateKey` needs for the call of a `ref` case with a back-quoted column: the text of
    the factor, the column's name, CPython's parameters (the unparsed call node around the stand-in, the verdict of
    `str.isidentifier` + NFKC on the name, the non-ASCII `\\w` characters), and the environment of each data set.
    The contract of the unparser parameter (theorem `state_key_of_call`: the stand-in stands between non-word
    characters and the unparser prints no word the source does not have) is checked here."""
    import ast

    var = c["var"]
    inner = ref_inner(c)
    quoted = f"`{var}`"
    assert inner.count(quoted) == 1
    text = ast.unparse(ast.parse(inner.replace(quoted, SENTINEL), mode="eval")).replace("\n", " ")
    assert text.count(SENTINEL) == 1
    pre, post = text.split(SENTINEL)
    src_pre, src_post = ref_expr(c, python=True).split(quoted)
    assert (not pre or not re.match(r"\w", pre[-1])) and (not post or not re.match(r"\w", post[0]))
    assert set(re.findall(r"\w+", pre + " " + post)) <= set(re.findall(r"\w+", src_pre + " " + src_post, re.ASCII))
    ident = [var] if (var.isidentifier() and unicodedata.normalize("NFKC", var) == var) else []
    wordchars = "".join(sorted({ch for ch in pre + post + var if ord(ch) > 127 and re.match(r"\w", ch)}))
    return dict(expr=ref_expr(c, python=True), name=var, pre=pre, post=post, ident=ident, wordchars=wordchars,
                envs=[ref_env_names(c, i) for i in range(len(c["calls"]))])


def agree_ref_keys(c, o, m):
    """the key the library recorded the state under, on every data set of the history, against the model"""
    if c.get("route") != "ref" or not c.get("var"):
        return None
    mk = m.get("keys")
    if mk is None:
        return "the model returned no transform-state keys"
    for i, obs in enumerate(o.get("calls", [])):
        if "keys" not in obs or i >= len(mk):
            continue
        if "key" not in mk[i]:
            return f"data set {i}: the model has no key for the call ({mk[i]})"
        if obs["keys"] != [mk[i]["key"]]:
            return (f"data set {i} (columns {ref_env_names(c, i)[:1 + len((c.get('extra') or [[]] * 9)[i])]}): the transform "
                    f"state is kept under {obs['keys']}, the model's key is {[mk[i]['key']]}")
    return None


def impl_scale_ref(c):
    res = []
    with numpy.errstate(all="ignore"):
        for vals, tstate in _ref_run(c, [[fl(v) for v in call["data"]] for call in c["calls"]]):
            arr = numpy.asarray(vals, dtype=float)
            obs = dict(out=[jf(v) for v in (arr[:, 0] if arr.ndim == 2 else arr)],
                       state=_scale_state_obs(dict(_ref_state(tstate, c))), keys=list(tstate))
            if arr.ndim == 2 and arr.shape[1] != 1:
                obs["ncols"] = arr.shape[1]
            res.append(obs)
    return dict(calls=res)


def impl_poly_ref(c):
    res = []
    with numpy.errstate(all="ignore"):
        for call, (vals, tstate) in zip(c["calls"], _ref_run(c, [[fl(v) for v in call["x"]] for call in c["calls"]])):
            res.append(_poly_obs(vals, dict(_ref_state(tstate, c)), len(call["x"]), call["degree"]))
            res[-1]["keys"] = list(tstate)
    return dict(calls=res)


def impl_scale(c):
    from formulaic.transforms import TRANSFORMS

    res = []
    if c["route"] == "ref":
        return impl_scale_ref(c)
    if c["route"] == "formula":
        from formulaic import model_matrix

        fn = c["calls"][0]["fn"]
        pos, kws = written(c["calls"][0])
        expr = f"{fn}(x" + "".join(f", {_lit(a)}" for a in pos) + "".join(f", {k}={_lit(a)}" for k, a in kws) + ")"

        def recorded(tstate):
            return dict(tstate[expr] if expr in tstate else (next(iter(tstate.values())) if len(tstate) == 1 else {}))

        with numpy.errstate(all="ignore"):
            mm = model_matrix("0 + " + expr, make_frame(c, c["calls"][0]["data"]))
            spec = mm.model_spec
            res.append(dict(out=[jf(v) for v in as_matrix(mm)[:, 0]], state=_scale_state_obs(recorded(spec.transform_state))))
            m2 = spec.get_model_matrix(make_frame(c, c["calls"][1]["data"]))
            res.append(dict(out=[jf(v) for v in as_matrix(m2)[:, 0]], state=_scale_state_obs(recorded(spec.transform_state))))
        return dict(calls=res)
    st = {}
    for k, v in c["state"].items():
        st[k] = None if v is None else _num(v)
    for call in c["calls"]:
        f = TRANSFORMS[call["fn"]]
        pos, kws = written(call)
        try:
            data = make_container(call, call["data"])
            with numpy.errstate(all="ignore"):
                out = f(data, *[_py_arg(a) for a in pos], _state=st, **{k: _py_arg(v) for k, v in kws})
        except Exception as e:  # a raised exception leaves `_state` as it was: the history goes on
            res.append(dict(error=type(e).__name__))
            continue
        res.append(dict(out=[jf(v) for v in numpy.asarray(out, dtype=float).reshape(-1)], state=_scale_state_obs(st)))
    return dict(calls=res)


def make_container(call, vec, nan_ok=False):
    """the vector `vec` ("p/q" strings, None = missing) in the container / storage type the call names"""
    kind = call.get("container", "ndarray")
    if kind == "sparse":
        import scipy.sparse as sp

        cols = call["cols"]
        n = len(vec) if not cols else len(cols[0])
        dense = numpy.array([[fl(v) for v in col] for col in cols], dtype=float).T if cols else numpy.zeros((n, 0))
        return {"csc": sp.csc_matrix, "csr": sp.csr_matrix, "coo": sp.coo_matrix}[call.get("format", "csc")](dense.reshape(n, len(cols)))
    dtype = call.get("dtype", "float64")
    if dtype.startswith("float"):
        vals = [float("nan") if v is None else fl(v) for v in vec]
        arr = numpy.array(vals, dtype=dtype)
    else:
        vals = [Fraction(v).numerator for v in vec]
        arr = numpy.array(vals, dtype=dtype)
    if kind == "list":
        # a list keeps the storage type only through its elements: numpy scalars for the unsigned / logical types
        # (Python integers would be read back as int64 / float64)
        return list(arr) if dtype in UNSIGNED or dtype == "bool" or dtype in NARROW_FLOATS else vals
    if kind == "series":
        return pandas.Series(arr, index=[3 * i + 2 for i in range(len(vals))])
    if kind == "nwseries":
        import narwhals

        return narwhals.from_native(pandas.Series(arr), series_only=True)
    return arr


def _poly_state_obs(st):
    out = {}
    for key in ("alpha", "norms2"):
        if key in st and st[key] is not None:
            d = st[key]
            ks = sorted(d)
            out[key] = [jf(d[k]) for k in ks]
            if ks != list(range(len(ks))):
                out[key + "_keys"] = ks
    return out


def _poly_obs(arr, st, nrows, degree):
    arr = numpy.asarray(arr, dtype=float)
    if arr.ndim == 1:
        arr = arr.reshape(-1, 1)
    obs = dict(cols=[[jf(v) for v in arr[:, j]] for j in range(arr.shape[1])], state=_poly_state_obs(st))
    n2 = st.get("norms2")
    if n2:
        with numpy.errstate(all="ignore"):
            obs["sqrts"] = [jf(numpy.sqrt(n2[k])) for k in sorted(n2)]
    return obs


def make_frame(c, vec):
    """the data set of a formula-route case: a pandas frame or an arrow table (narwhals materializer), the column
    stored as float64 or as the integer type the case names"""
    dtype = c.get("dtype", "float64")
    vals = [fl(v) for v in vec] if dtype.startswith("float") else [Fraction(v).numerator for v in vec]
    col = numpy.array(vals, dtype=dtype)
    if c.get("frame") == "arrow":
        import pyarrow

        return pyarrow.table({"x": col})
    return pandas.DataFrame({"x": col})


def as_matrix(mm):
    """a model matrix of any materializer as a float ndarray"""
    if hasattr(mm, "to_pandas") and not isinstance(mm, pandas.DataFrame):
        mm = mm.to_pandas()
    return numpy.asarray(mm, dtype=float)


def column_labels(mm):
    if hasattr(mm, "to_pandas") and not isinstance(mm, pandas.DataFrame):
        mm = mm.to_pandas()
    return [str(x) for x in getattr(mm, "columns", [])]


def impl_poly_formula(c):
    from formulaic import model_matrix

    c0 = c["calls"][0]
    expr = f"poly(x, {c0['degree']}, raw=True)" if c0["raw"] else f"poly(x, {c0['degree']})"
    res = []
    d1 = make_frame(c, c0["x"])
    with numpy.errstate(all="ignore"):
        mm = model_matrix("0 + " + expr, d1, na_action="ignore")
        spec = mm.model_spec
        res.append(_poly_obs(as_matrix(mm), dict(spec.transform_state.get(expr, {})), len(c0["x"]), c0["degree"]))
        res[-1]["labels"] = column_labels(mm)
        res[-1]["expr"] = expr
        d2 = make_frame(c, c["calls"][1]["x"])
        m2 = spec.get_model_matrix(d2)
        res.append(_poly_obs(as_matrix(m2), dict(spec.transform_state.get(expr, {})), len(c["calls"][1]["x"]), c0["degree"]))
        res[-1]["labels"] = column_labels(m2)
        res[-1]["expr"] = expr
    return dict(calls=res)


def impl_poly(c):
    from formulaic.transforms import TRANSFORMS

    if c.get("route") == "formula":
        return impl_poly_formula(c)
    if c.get("route") == "ref":
        return impl_poly_ref(c)
    st = {}
    res = []
    for call in c["calls"]:
        pos, kws = written_poly(call)
        try:
            x = make_container(call, call["x"])
            with numpy.errstate(all="ignore"):
                out = TRANSFORMS["poly"](x, *[arg_object(a) for a in pos], _state=st, **{k: arg_object(v) for k, v in kws})
        except Exception as e:
            res.append(dict(error=type(e).__name__))
            break
        arr = numpy.asarray(out, dtype=float)
        if arr.ndim != 2:
            res.append(dict(cols="bad-shape", state=_poly_state_obs(st)))
            continue
        obs = _poly_obs(arr, st, len(call["x"]), call["degree"])
        meta = getattr(out, "__formulaic_metadata__", None)
        if meta is not None and getattr(meta, "column_names", None) is not None:
            obs["column_names"] = list(meta.column_names)
        res.append(obs)
    return dict(calls=res)


def _elem_array(x, dtype, n=1):
    """the probe value stored as `dtype` (x is a Fraction; integer types get the exact integer)"""
    if dtype.startswith("float"):
        arr = numpy.array([float(x)] * n, dtype=dtype)
        assert Fraction(float(arr[0])) == x
        return arr
    assert x.denominator == 1 and INT_RANGE[dtype][0] <= x.numerator <= INT_RANGE[dtype][1]
    return numpy.array([x.numerator] * n, dtype=dtype)


def _elem_boxed(x, dtype, box):
    """the probe value in the container `box`, stored as `dtype`"""
    arr = _elem_array(x, dtype, 2)
    if box == "scalar":
        return float(x) if dtype == "float64" else int(x)
    if box == "npscalar":
        return arr[0]
    if box == "zerodim":
        return numpy.array(arr[0])
    if box == "list":
        return arr.tolist()
    if box == "series":
        return pandas.Series(arr, index=[7, 3])
    if box == "nwseries":
        import narwhals

        return narwhals.from_native(pandas.Series(arr), series_only=True)
    return arr


def _elem_eval(name, x, via, dtype="float64", box="ndarray", frame="pandas"):
    from formulaic.transforms import TRANSFORMS

    f = TRANSFORMS[name]
    try:
        with numpy.errstate(all="ignore"):
            direct = jf(float(numpy.asarray(f(_elem_array(x, dtype)), dtype=float)[0]))
            if box != "ndarray":
                r = f(_elem_boxed(x, dtype, box))
                vals = numpy.asarray(r, dtype=float).reshape(-1)
                if any(jf(v) != jf(vals[0]) for v in vals) or (jf(vals[0]) != direct):
                    direct = f"{jf(vals[0])!r} in a {box}, {direct!r} in an ndarray"
    except Exception as e:  # the property allows no exception on a finite real input
        direct = "raised " + type(e).__name__
    out = dict(direct=direct)
    if via == "formula":
        from formulaic import model_matrix

        try:
            col = _elem_array(x, dtype, 2)
            if frame == "arrow":
                import pyarrow

                data = pyarrow.table({"x": col})
            else:
                data = pandas.DataFrame({"x": col})
            with numpy.errstate(all="ignore"):
                mm = model_matrix(f"0 + {name}(x)", data, na_action="ignore")
            out["formula"] = jf(as_matrix(mm)[0, 0])
        except Exception as e:
            out["formula"] = "raised " + type(e).__name__
    return out


def _elem_point(name, k):
    if name == "exp2" or name == "exp10":
        return Fraction(k)
    if name == "log2":
        return Fraction(2) ** k
    if name == "log10":
        return Fraction(10) ** k
    if name == "exp":
        return Fraction(0)
    return Fraction(1)


def _q_tag(values, c):
    """which object came back: data column i holds [10 i + 1, 10 i + 2], context entry j holds [1000 + 10 j + 1, …]"""
    v = numpy.asarray(values.to_numpy() if hasattr(values, "to_numpy") else values, dtype=float).reshape(-1)
    if v.shape != (2,):
        return f"shape {v.shape}"
    for i, nm in enumerate(c["columns"]):
        if v.tolist() == [10.0 * i + 1, 10.0 * i + 2]:
            return "data:" + nm
    for j, nm in enumerate(c["context"]):
        if v.tolist() == [1000.0 + 10 * j + 1, 1000.0 + 10 * j + 2]:
            return "context:" + nm
    return f"values {v.tolist()}"


def impl_q(c):
    from formulaic.transforms import TRANSFORMS
    from formulaic.utils.layered_mapping import LayeredMapping
    from formulaic.utils.stateful_transforms import stateful_eval

    data = {nm: [10.0 * i + 1, 10.0 * i + 2] for i, nm in enumerate(c["columns"])}
    ctx = {nm: numpy.array([1000.0 + 10 * j + 1, 1000.0 + 10 * j + 2]) for j, nm in enumerate(c["context"])}
    q = c.get("quote", "'")
    expr = f"Q({q}{c['variable']}{q})"
    try:
        if c["env"] == "materializer":
            from formulaic import model_matrix

            if c["frame"] == "arrow":
                import pyarrow

                frame = pyarrow.table(data)
            else:
                frame = pandas.DataFrame(data)
            mm = model_matrix("0 + " + expr, frame, context=ctx, na_action="ignore")
            return dict(value=_q_tag(as_matrix(mm)[:, 0], c))
        if c["env"] == "none":
            return dict(value=_q_tag(TRANSFORMS["Q"](c["variable"]), c))
        if c["env"] == "named":
            env = LayeredMapping(LayeredMapping(data, name=c["layer"]), {**ctx, **TRANSFORMS})
        else:
            env = {**TRANSFORMS, **ctx, **data}
        return dict(value=_q_tag(stateful_eval(expr, env, None, {}, None), c))
    except Exception as e:
        cause = e.__cause__ if type(e).__name__ == "FactorEvaluationError" and e.__cause__ is not None else e
        return dict(error=type(cause).__name__)


def _treatment_expr(c, callee="Treatment", arg="reference"):
    ref = c["reference"]
    if ref is None:
        inner = f"{callee}()"
    elif c["spelling"] == "kw":
        inner = f"{callee}({arg}={ref!r})"
    else:
        inner = f"{callee}({ref!r})"
    return f"{'1' if c['intercept'] else '0'} + C(a, {inner})"


def impl_treatment(c):
    from formulaic import model_matrix
    from formulaic.transforms.contrasts import TreatmentContrasts
    from formulaic.transforms import TRANSFORMS

    ref = c["reference"]
    shim = TRANSFORMS["Treatment"]
    obj = shim() if ref is None else (shim(reference=ref) if c["spelling"] == "kw" else shim(ref))
    out = dict(is_treatment=isinstance(obj, TreatmentContrasts) and obj == (TreatmentContrasts() if ref is None else TreatmentContrasts(base=ref)))
    if c["frame"] == "arrow":
        import pyarrow

        frame = pyarrow.table({"a": c["rows"]})
    else:
        frame = pandas.DataFrame({"a": c["rows"]})
    try:
        mm = model_matrix(_treatment_expr(c), frame)
    except Exception as e:
        cause = e.__cause__ if type(e).__name__ == "FactorEvaluationError" and e.__cause__ is not None else e
        out["error"] = type(cause).__name__
        return out
    labels = [l for l in column_labels(mm) if l != "Intercept"]
    fields = []
    for l in labels:
        inner = l[l.rindex("[") + 1:-1]
        fields.append(inner[2:] if (c["intercept"] and inner.startswith("T.")) else inner)
    out["fields"] = fields
    # the same coding spelled with the contrast it stands for
    m2 = model_matrix(_treatment_expr(dict(c, spelling="kw" if ref is not None else "unset"), "contr.treatment", "base"), frame)
    out["same_as_contr_treatment"] = bool(numpy.array_equal(as_matrix(mm), as_matrix(m2)))
    # which rows each coded column marks
    M = as_matrix(mm)
    k0 = 1 if c["intercept"] else 0
    out["marks"] = [sorted({str(c["rows"][r]) for r in range(M.shape[0]) if M[r, k0 + j] == 1.0}) for j in range(len(fields))]
    return out


def impl_identity(c):
    from formulaic import model_matrix
    from formulaic.transforms import TRANSFORMS

    ident = TRANSFORMS["I"]
    vec = c["data"]
    dtype = c.get("dtype", "float64")
    box = c["box"]
    if box == "frame":
        obj = make_frame(c, vec)
    elif box == "dict":
        obj = {"a": make_container(dict(container="ndarray", dtype=dtype), vec)}
    elif box == "str":
        obj = "x"
    elif box in ("scalar", "npscalar", "zerodim"):
        obj = _elem_boxed(Fraction(vec[0]), dtype, box)
    else:
        obj = make_container(dict(container=box, dtype=dtype), vec)
    out = dict(same=ident(obj) is obj)
    mm = model_matrix("0 + I(x)", make_frame(c, vec), na_action="ignore")
    out["values"] = [jf(v) for v in as_matrix(mm)[:, 0]]
    return out


def impl(c):
    if c["kind"] == "names":
        from formulaic.transforms import TRANSFORMS

        return dict(live=sorted(k for k in TRANSFORMS if k in ELEM_NAMES), keys=list(TRANSFORMS))
    if c["kind"] == "Q":
        return impl_q(c)
    if c["kind"] == "treatment":
        return impl_treatment(c)
    if c["kind"] == "identity":
        return impl_identity(c)
    if c["kind"] == "comp":
        return impl_comp(c)
    if c["kind"] == "scale":
        return impl_scale(c)
    if c["kind"] == "poly":
        return impl_poly(c)
    from formulaic.transforms import TRANSFORMS

    if c["name"] not in TRANSFORMS:
        return dict(missing=True)
    if c["kind"] == "elem":
        p = _elem_point(c["name"], c["k"])
        assert Fraction(float(p)) == p
        o = _elem_eval(c["name"], p, c["via"], c.get("dtype", "float64"), c.get("box", "ndarray"), c.get("frame", "pandas"))
        o["point"] = fr(p)
        return o
    x = unfr(c["x"])
    dtype = c.get("dtype", "float64")
    o = _elem_eval(c["name"], x, c["via"], dtype, c.get("box", "ndarray"), c.get("frame", "pandas"))
    # round trip through the partner taken from the live table as well
    f, g = TRANSFORMS[c["name"]], TRANSFORMS.get(PARTNER[c["name"]])
    if g is not None:
        try:
            with numpy.errstate(all="ignore"):
                o["roundtrip"] = jf(float(numpy.asarray(g(f(_elem_array(x, dtype))), dtype=float)[0]))
        except Exception as e:
            o["roundtrip"] = "raised " + type(e).__name__
    return o


# ----------------------------------------------------------------------------- request


def request(c, o):
    if c["kind"] == "names":
        return dict(op="names")
    if c["kind"] == "comp":
        return request(*comp_first(c, o))
    if c["kind"] == "Q":
        return dict(op="Q", variable=c["variable"], env=c["env"], layer=c.get("layer", ""),
                    data=[[nm, "data:" + nm] for nm in c["columns"]],
                    context=[[nm, "context:" + nm] for nm in c["context"]])
    if c["kind"] == "treatment":
        return dict(op="treatment", levels=c["levels"], reference=c["reference"], reduced=c["intercept"])
    if c["kind"] == "identity":
        return dict(op="identity", value=c["data"])
    if c["kind"] == "scale":
        calls = []
        for i, call in enumerate(c["calls"]):
            pos, kws = written(call)
            r = dict(fn=call["fn"], pos=pos, kw=[list(k) for k in kws])
            if call.get("container") == "sparse":
                r.update(container="sparse", cols=call["cols"])
            else:
                r.update(container="dense", data=call["data"])
            io = o.get("calls", [])[i] if i < len(o.get("calls", [])) else {}
            s = (io.get("state") or {}).get("scale")
            r["sqrt"] = fr(s) if isinstance(s, (int, float)) else None
            calls.append(r)
        req = dict(op="scale", state=c["state"], calls=calls)
        if c.get("route") == "ref" and c.get("var"):
            req["keyreq"] = ref_key_request(c)
        return req
    if c["kind"] == "poly":
        calls = []
        for i, call in enumerate(c["calls"]):
            pos, kws = written_poly(call)
            r = dict(x=call["x"], pos=pos, kw=[list(k) for k in kws])
            io = o.get("calls", [])[i] if i < len(o.get("calls", [])) else {}
            sq = io.get("sqrts") or []
            r["sqrts"] = [fr(s) if isinstance(s, (int, float)) else "0/1" for s in sq]
            calls.append(r)
        req = dict(op="poly", state={}, calls=calls)
        if c.get("route") == "ref" and c.get("var"):
            req["keyreq"] = ref_key_request(c)
        return req
    if c["kind"] == "elem":
        return dict(op="elem", name=c["name"], k=c["k"], exact=True)
    return dict(op="elem", name=c["name"], exact=False)


# ----------------------------------------------------------------------------- agree (model vs implementation)

OUT_TOL = 1e-9
STAT_TOL = 1e-12


def _has_nonfinite(obs):
    if "out" in obs and any(isinstance(v, str) for v in obs["out"]):
        return True
    if "cols" in obs and any(isinstance(v, str) for col in obs["cols"] for v in col):
        return True
    for v in (obs.get("state") or {}).values():
        if isinstance(v, str):
            return True
        if isinstance(v, list) and any(isinstance(x, str) for x in v):
            return True
    return False


def _poly_nonfinite(obs, call):
    """non-finite values other than the NaN rows the input asks for"""
    nulls = [v is None for v in call["x"]]
    for col in obs.get("cols", []):
        for v, isnull in zip(col, nulls):
            if isinstance(v, str) and not isnull:
                return True
    for v in (obs.get("state") or {}).values():
        if isinstance(v, list) and any(isinstance(x, str) for x in v):
            return True
    return False


def agree_scale(c, o, m):
    ic, mc = o.get("calls", []), m.get("calls", [])
    for i, call in enumerate(c["calls"]):
        if i >= len(ic) or i >= len(mc):
            if len(ic) != len(mc):
                # both stop after a non-finite outcome; the implementation carries on with nan/inf
                if i < len(ic) and i >= len(mc) and mc and mc[-1].get("error") == "nonfinite":
                    return None
                return f"call {i}: implementation produced {len(ic)} results, model {len(mc)}"
            return None
        a, b = ic[i], mc[i]
        if "error" in a:  # a raised exception: the model must raise the same one; `_state` is untouched, the history goes on
            if b.get("error") != a["error"]:
                return f"call {i}: implementation raised {a['error']}, model {b.get('error', 'returns a value')}"
            continue
        if b.get("error") in ("ValueError", "TypeError", "unmodelled"):
            return f"call {i}: model raises {b['error']}, the implementation returned {str(a)[:200]}"
        if "error" in b:
            if _has_nonfinite(a):
                return None
            if c["route"] == "formula" and a["state"].get("scale") == 0.0 and len(a["out"]) < len(call["data"]):
                return None  # nan rows were produced and then dropped by the materializer's NA handling
            return f"call {i}: model reports a division by zero (nan/inf) but the implementation output is finite: {a}"
        if _has_nonfinite(a):
            return f"call {i}: implementation produced nan/inf, model a finite result"
        sa, sb = a["state"], b["state"]
        if sorted(sa) != sorted(sb):
            return f"call {i}: recorded state keys {sorted(sa)} vs model {sorted(sb)}"
        # all tolerances are RELATIVE to the magnitude of the data seen so far (a mean may cancel to ~0, its rounding
        # error is eps * max|x|), never absolute: the property quantifies over vectors of any magnitude
        datamag = max([abs(fl(v)) for cc in c["calls"][: i + 1] for v in cc["data"]] + [0.0])
        for k in ("ddof", "center"):
            if k in sa:
                if (sa[k] is None) != (sb[k] is None):
                    return f"call {i}: state[{k}] {sa[k]} vs model {sb[k]}"
                if sa[k] is not None:
                    ref = abs(fl(sb[k])) if k == "ddof" else max(abs(fl(sb[k])), datamag)
                    if abs(float(sa[k]) - fl(sb[k])) > STAT_TOL * ref:
                        return f"call {i}: state[{k}] {sa[k]} vs model {fl(sb[k])}"
        if (sa.get("scale") is None) != (sb.get("scale") is None):
            return f"call {i}: state[scale] {sa.get('scale')} vs model {sb.get('scale')}"
        if sb.get("scale") is not None and abs(float(sa["scale"]) - fl(sb["scale"])) > STAT_TOL * abs(fl(sb["scale"])):
            return f"call {i}: state[scale] {sa['scale']} vs model {fl(sb['scale'])}"
        # contract of the sqrt parameter: (recorded scale)^2 == the variance the model took the root of
        if b.get("sqrt_arg") is not None:
            var = unfr(b["sqrt_arg"])
            s2 = Fraction(float(sa["scale"])) ** 2
            if var < 0 or abs(s2 - var) > Fraction(1, 10 ** 12) * max(abs(var), Fraction(1, 10 ** 300)):
                return f"call {i}: recorded scale^2 = {float(s2)!r} but the variance is {float(var)!r} (sqrt contract)"
        if len(a["out"]) != len(b["out"]):
            return f"call {i}: output length {len(a['out'])} vs model {len(b['out'])}"
        cm = abs(fl(sb["center"])) if sb.get("center") is not None else 0.0
        sm = abs(fl(sb["scale"])) if sb.get("scale") is not None else 1.0
        callmag = max([abs(fl(v)) for v in call["data"]] + [0.0])
        outref = (callmag + cm) / sm  # size of the terms whose difference/quotient the output is
        for j, (u, v) in enumerate(zip(a["out"], b["out"])):
            if abs(float(u) - fl(v)) > OUT_TOL * max(abs(fl(v)), outref):
                return f"call {i}: out[{j}] = {u!r} vs model {fl(v)!r}"
    return None


def _distinct_nonnull(xs):
    return len({v for v in xs if v is not None})


def agree_poly(c, o, m):
    ic, mc = o.get("calls", []), m.get("calls", [])
    trained_degree = None
    for i, call in enumerate(c["calls"]):
        if i >= len(ic) or i >= len(mc):
            if i < len(ic) and mc and "error" in mc[-1] and mc[-1]["error"] == "nonfinite":
                return None
            if len(ic) != len(mc):
                return f"call {i}: implementation produced {len(ic)} results, model {len(mc)}"
            return None
        a, b = ic[i], mc[i]
        if "error" in a:
            if a["error"] != b.get("error"):
                return f"call {i}: implementation raised {a['error']}, model {b.get('error', 'ok')}"
            return None
        if "error" in b:
            if b["error"] != "nonfinite":
                return f"call {i}: model {b['error']}, implementation returned a value"
            # exact criterion for 0/0: fewer distinct values than degree + 1 on the fitting data.  In floats the
            # zero norm may come out as rounding dust instead of 0, so the implementation's numbers are not compared.
            if not call["raw"] and trained_degree is None and _distinct_nonnull(call["x"]) <= call["degree"]:
                return None
            if _poly_nonfinite(a, call):
                return None
            return f"call {i}: model reports 0/0 (nan) but the implementation output is finite and the data have enough distinct values"
        if not call["raw"] and trained_degree is None:
            if _distinct_nonnull(call["x"]) <= call["degree"]:
                return f"call {i}: data have only {_distinct_nonnull(call['x'])} distinct values for degree {call['degree']} but the model did not report 0/0"
            trained_degree = call["degree"]
        if _poly_nonfinite(a, call):
            return f"call {i}: implementation produced nan/inf outside the NaN rows, model a finite result"
        sa, sb = a["state"], b["state"]
        if sorted(k for k in sa if not k.endswith("_keys")) != sorted(sb):
            return f"call {i}: recorded state keys {sorted(sa)} vs model {sorted(sb)}"
        for key in ("alpha", "norms2"):
            if key + "_keys" in sa:
                return f"call {i}: {key} keys are {sa[key + '_keys']}, not 0..k"
            if key in sb:
                if len(sa[key]) != len(sb[key]):
                    return f"call {i}: len({key}) = {len(sa[key])} vs model {len(sb[key])}"
                ref = max([1.0] + [abs(fl(v)) for v in sb[key]]) if key == "alpha" else None
                for k, (u, v) in enumerate(zip(sa[key], sb[key])):
                    v = fl(v)
                    tol = 1e-9 * (ref if key == "alpha" else max(abs(v), 1e-300))
                    if abs(float(u) - v) > tol:
                        return f"call {i}: {key}[{k}] = {u!r} vs model {v!r}"
        # sqrt contract
        if "sqrts" in a and "norms2" in sb:
            for k, (s, n) in enumerate(zip(a["sqrts"], sb["norms2"])):
                n = unfr(n)
                s2 = Fraction(float(s)) ** 2
                if abs(s2 - n) > Fraction(1, 10 ** 9) * abs(n):
                    return f"call {i}: sqrt(norms2[{k}])^2 = {float(s2)!r} vs norms2 {float(n)!r} (sqrt contract)"
        if len(a["cols"]) != len(b["cols"]):
            return f"call {i}: {len(a['cols'])} columns vs model {len(b['cols'])}"
        for j, (ca, cb) in enumerate(zip(a["cols"], b["cols"])):
            if len(ca) != len(cb):
                return f"call {i}: column {j} has {len(ca)} rows vs model {len(cb)}"
            for r, (u, v) in enumerate(zip(ca, cb)):
                if (u == "nan") != (v is None):
                    return f"call {i}: [{r},{j}] = {u!r} vs model {v!r}"
                if v is not None and not close(float(u), fl(v), OUT_TOL if not call["raw"] else 1e-12):
                    return f"call {i}: [{r},{j}] = {u!r} vs model {fl(v)!r}"
        # the names the columns are given: `FactorValues(..., column_names=("1", …, str(degree)))` on the orthogonal
        # branch, none on the raw branch; through a formula they become the labels `poly(x, d)[k]`
        if "names" in b and c.get("route") is None:
            if a.get("column_names") != b["names"]:
                return f"call {i}: column_names {a.get('column_names')} vs model {b['names']}"
        if b.get("names") is not None and "labels" in a and a["labels"]:
            want = [f"{a['expr']}[{nm}]" for nm in b["names"]]
            if a["labels"] != want:
                return f"call {i}: column labels {a['labels']} vs model {want}"
    return None


def agree(c, o, m):
    if "driver_error" in m:
        return "driver: " + m["driver_error"][:300]
    if "harness_exception" in o:
        return "harness: " + o["harness_exception"]
    if c["kind"] == "names":
        # the harness probes ELEM_NAMES; that list must be exactly the model table (so that EVERY name the spec
        # gives a meaning to is probed), and each of them must be a live key
        if sorted(m.get("names", [])) != sorted(ELEM_NAMES):
            return f"model table names {sorted(m.get('names', []))} differ from the probed names {sorted(ELEM_NAMES)}"
        if o.get("live") != sorted(ELEM_NAMES):
            return f"live TRANSFORMS has only {o.get('live')} of {sorted(ELEM_NAMES)}"
        # the contract of every preloaded name against what the live object is (Gen/TransformTable.lean)
        rows = {r["name"]: r for r in m.get("contracts", [])}
        unmet = sorted(n for n, r in rows.items() if not r["met"])
        if unmet:
            return f"preloaded names that do not meet their contract: {[(n, rows[n]['contract']) for n in unmet]}"
        for n in ELEM_NAMES:
            if rows.get(n, {}).get("computes") != n:
                return f"the live entry {n!r} is identified as computing {rows.get(n, {}).get('computes')!r}"
        return None
    if c["kind"] == "Q":
        if o != m:
            return f"Q({c['variable']!r}) in environment {c['env']}: implementation {o}, model {m}"
        return None
    if c["kind"] == "treatment":
        if ("error" in o) != ("error" in m) or ("error" in o and o["error"] != m["error"]):
            return f"Treatment({c['reference']!r}) on levels {c['levels']}: implementation {o.get('error', 'returns')}, model {m.get('error', 'returns')}"
        if "error" not in o and o["fields"] != [str(x) for x in m["names"]]:
            return f"Treatment({c['reference']!r}) on levels {c['levels']}: coded columns {o['fields']}, model {m['names']}"
        return None
    if c["kind"] == "identity":
        want = [fl(v) for v in m.get("value", [])]
        if not o.get("same") or o.get("values") != want:
            return f"I(x): same object {o.get('same')}, column {o.get('values')} vs model {want}"
        return None
    if c["kind"] == "comp":  # the first execution is the fit the recorded state belongs to; the others: oracle
        pc, po = comp_first(c, o)
        return agree_scale(pc, po, m)
    if c["kind"] == "scale":
        return agree_scale(c, o, m) or agree_ref_keys(c, o, m)
    if c["kind"] == "poly":
        return agree_poly(c, o, m) or agree_ref_keys(c, o, m)
    if o.get("missing"):
        return f"TRANSFORMS has no entry {c['name']!r} but the model table names it"
    if m.get("denotes") != c["name"]:
        return f"model table maps {c['name']!r} to {m.get('denotes')!r}"
    if m.get("partner") != PARTNER[c["name"]]:
        return f"model partner of {c['name']} is {m.get('partner')}"
    if c["kind"] == "elem":
        if "point" not in m:
            return f"model has no exact value for {c['name']} at probe {c['k']}"
        if unfr(m["point"]) != unfr(o["point"]):
            return f"probe point differs: model {m['point']} harness {o['point']}"
        for via in ("direct", "formula"):
            if via in o:
                v = o[via]
                if isinstance(v, str) or not _matches_exact(float(v), unfr(m["value"])):
                    return (f"{c['name']}({float(unfr(o['point']))!r} as {c.get('dtype', 'float64')}) = {v!r} ({via}), "
                            f"exact value is {float(unfr(m['value']))!r}")
    return None


def _matches_exact(v: float, true: Fraction) -> bool:
    """equal to the exact value when that is a float; otherwise within 2 ulp of it (10**k for k > 22 or k < 0)"""
    if Fraction(float(true)) == true:
        return Fraction(v) == true
    return math.isfinite(v) and abs(Fraction(v) - true) <= Fraction(1, 2 ** 51) * abs(true)


def _elem_true(name, k) -> Fraction:
    """independent restatement of the exact value at probe k (python integers/fractions only)"""
    if name == "exp2":
        return Fraction(2) ** k
    if name == "exp10":
        return Fraction(10) ** k
    if name in ("log2", "log10"):
        return Fraction(k)
    return Fraction(1) if name == "exp" else Fraction(0)


# ----------------------------------------------------------------------------- oracle (implementation alone)


def _arr(vals):
    return numpy.array([float(v) if not isinstance(v, str) else float(v) for v in vals], dtype=float)


# routes on which the LIBRARY keeps the statistics between the data sets (the harness passes no `_state` of its own)
LIBRARY_RECORDED = ("formula", "ref")


def _same_affine_map(c, calls):
    """`apply the recorded statistics unchanged to new data`, read off the outputs alone: whatever centre c and
    scale s were fitted, the fitting vector was mapped by t -> (t - c) / s; the follow-up vectors must be mapped by
    that same affine function.  It is recovered from the two extreme points of the fitting vector and its image, and
    the comparison allows for the rounding of that recovery (condition number (max|x| + |c|) / spread)."""
    fn = c["calls"][0]["fn"]
    x0 = _arr([fl(v) for v in c["calls"][0]["data"]])
    y0 = _arr(calls[0]["out"])
    if y0.shape != x0.shape or not numpy.all(numpy.isfinite(y0)):
        return None
    lo, hi = int(numpy.argmin(x0)), int(numpy.argmax(x0))
    spread = float(x0[hi] - x0[lo])
    if spread <= 0:
        return None  # a constant fitting vector does not determine the map
    slope = float((y0[hi] - y0[lo]) / spread)
    if slope == 0 or not math.isfinite(slope):
        return None
    icpt = float(y0[lo] - slope * x0[lo])
    xmag = float(numpy.max(numpy.abs(x0)))
    cond = (xmag + abs(icpt / slope)) / spread
    if cond > 1e5:
        return None  # the fitting output does not determine the map to a useful accuracy
    for i in range(1, len(calls)):
        if _has_nonfinite(calls[i]):
            return f"{fn}: nan/inf on finite follow-up data although the fitting data gave a finite result"
        y = _arr([fl(v) for v in c["calls"][i]["data"]])
        got = _arr(calls[i]["out"])
        want = slope * y + icpt
        ymag = float(numpy.max(numpy.abs(y))) if y.size else 0.0
        tol = 1e-9 * max(cond, 1.0) * abs(slope) * (ymag + xmag + abs(icpt / slope))
        if got.shape != want.shape or float(numpy.max(numpy.abs(got - want), initial=0.0)) > tol:
            return (f"{fn}: follow-up data were not transformed with the statistics fitted on the first data set "
                    f"(the map t -> {slope!r} * t + {icpt!r} that was applied to the fitting vector): "
                    f"got {got.tolist()[:4]}, want {want.tolist()[:4]}")
    return None


def _ddof_value(d):
    return (1.0 if d else 0.0) if isinstance(d, bool) else float(Fraction(d))


def oracle_scale(c, o):
    calls = o.get("calls", [])
    if not calls:
        return None
    # the calls the property speaks about: a vector (a sparse matrix with one column is one; with another number of
    # columns it is not, and `ValueError` is the library's answer), arguments that bind (else `TypeError`)
    pairs = []
    for call, a in zip(c["calls"], calls):
        multicol = call.get("container") == "sparse" and len(call.get("cols", [])) != 1
        eff = effective(call)
        if "error" in a:
            if (multicol and a["error"] == "ValueError") or (eff is None and a["error"] == "TypeError"):
                continue
            return f"{call['fn']} raised {a['error']} on {describe_call(call)}"
        if multicol or eff is None:
            continue
        pairs.append((call, a, eff))
    if not pairs:
        return None
    c0, a0, e0 = pairs[0]
    fn = c0["fn"]
    how = describe_call(c0)
    x0 = _arr([fl(v) for v in c0["data"]])
    n = len(x0)
    fresh = not c["state"]
    # which statistics were fitted on this data, as the property words it
    centered = fresh and e0["center"] is True
    scaled = fresh and e0["scale"] is True
    ddof = _ddof_value(e0["ddof"])
    mag = float(numpy.max(numpy.abs(x0)))  # relative to the data's own magnitude, whatever it is
    spread = float(numpy.max(x0) - numpy.min(x0))
    if centered and not scaled and not _has_nonfinite(a0) and a0["state"].get("scale") is None:
        y = _arr(a0["out"])
        if y.shape != x0.shape or abs(y.mean()) > 1e-9 * mag:
            return f"{fn}: mean of the centred fitting data is {y.mean()!r}, not 0 ({how})"
    if centered and scaled and n - ddof > 0 and spread > 0:
        if _has_nonfinite(a0):
            return f"{fn}: non-constant data with ddof < n gave nan/inf: {a0} ({how})"
        y = _arr(a0["out"])
        if y.shape != x0.shape or abs(y.mean()) > 1e-9:
            return f"{fn}: mean of the standardised fitting data is {y.mean()!r}, not 0 ({how})"
        sd = math.sqrt(float(((y - y.mean()) ** 2).sum()) / (n - ddof))
        if abs(sd - 1.0) > 1e-9:
            return f"{fn}: standard deviation (ddof={ddof}) of the standardised fitting data is {sd!r}, not 1 ({how})"
    if fresh and e0["scale"] is False and _has_nonfinite(a0) and mag < 1e150:
        return (f"{fn}: with scale=False the data must only be shifted by the centre, but finite data gave nan/inf: "
                f"{a0['out'][:4]} for {x0.tolist()[:4]} ({how}, arguments {written(c0)})")
    if fresh and e0["scale"] is False and not _has_nonfinite(a0):
        # scale=False: the data are only shifted by the chosen centre (their mean, 0, or the number given)
        y = _arr(a0["out"])
        cval = float(x0.mean()) if e0["center"] is True else (0.0 if e0["center"] is False else fl(e0["center"]))
        if y.shape != x0.shape or float(numpy.max(numpy.abs(y - (x0 - cval)), initial=0.0)) > 1e-9 * max(mag, abs(cval)):
            return (f"{fn}: with scale=False the data must only be shifted by the centre {cval!r}; "
                    f"got {y.tolist()[:4]} for {x0.tolist()[:4]} ({how})")
    if scaled and not centered and n - ddof > 0:
        # scale=True without the mean: unit standard deviation ABOUT THE CHOSEN CENTRE (0, or the number given)
        cval = 0.0 if e0["center"] is False else fl(e0["center"])
        dev = x0 - cval
        if float(numpy.max(numpy.abs(dev))) > 0:
            if _has_nonfinite(a0):
                return f"{fn}: data that differ from the chosen centre {cval!r} with ddof < n gave nan/inf ({how})"
            y = _arr(a0["out"])
            rms = math.sqrt(float((y ** 2).sum()) / (n - ddof)) if y.shape == x0.shape else float("nan")
            if not abs(rms - 1.0) <= 1e-9:
                return (f"{fn}: standard deviation (ddof={ddof}) of the rescaled fitting data about the chosen centre "
                        f"{cval!r} is {rms!r}, not 1 ({how})")
    # recorded statistics applied unchanged to every later vector, whatever arguments are passed
    if _has_nonfinite(a0):
        return None
    if c["route"] in LIBRARY_RECORDED:
        why = _same_affine_map(c, calls)
        if why:
            return why
    st0 = a0["state"]
    for call, a, _ in pairs[1:]:
        if a["state"] != st0:
            return f"{fn}: recorded statistics changed on follow-up data: {st0} -> {a['state']}"
        y = _arr([fl(v) for v in call["data"]])
        want = y
        if st0.get("center") is not None:
            want = want - st0["center"]
        if st0.get("scale") is not None:
            if st0["scale"] == 0:
                continue
            want = want / st0["scale"]
        got = _arr(a["out"])
        ref = float(numpy.max(numpy.abs(want))) if want.size else 0.0
        if got.shape != want.shape or not numpy.allclose(got, want, rtol=1e-12, atol=1e-12 * ref):
            return (f"{call['fn']}: follow-up vector not transformed with the recorded statistics {st0}: "
                    f"got {got.tolist()[:4]}, want {want.tolist()[:4]} ({describe_call(call)})")
    return None


def describe_call(call):
    if call.get("container") == "sparse":
        return f"sparse {call.get('format', 'csc')} matrix with {len(call.get('cols', []))} column(s)"
    return f"{call.get('container', 'ndarray')} of {call.get('dtype', 'float64')}"


def _same_polynomials(c, calls, d, x, Q):
    """`apply the recorded statistics unchanged to new data`, read off the outputs alone: every column of the fitting
    output is a polynomial of degree <= d in the fitting vector (it lies in the span of the raw powers); the follow-up
    vectors must be mapped by those same polynomials.  Each is recovered by least squares in the affinely rescaled
    variable, with the lowest degree that reproduces the column (so that no rounding dust sits on higher powers when
    the follow-up data lie far outside the fitted range); the comparison is relative to the size of the terms."""
    m = float(x.mean())
    sc = float(numpy.abs(x - m).max()) or 1.0
    t0 = (x - m) / sc
    coefs = []
    for j in range(d):
        found = None
        for k in range(1, d + 1):
            V0 = numpy.vander(t0, k + 1, increasing=True)
            cf, _, rank, sv = numpy.linalg.lstsq(V0, Q[:, j], rcond=None)
            if rank < k + 1 or sv[-1] < 1e-6 * sv[0]:
                break
            if numpy.abs(V0 @ cf - Q[:, j]).max() <= 1e-10 * max(1.0, float(numpy.abs(Q[:, j]).max())):
                found = cf
                break
        if found is None:
            return None  # the fitting output does not determine the polynomial to a useful accuracy (span check reports the rest)
        coefs.append(found)
    for i in range(1, len(calls)):
        a, ci = calls[i], c["calls"][i]
        if "error" in a or ci["degree"] != d or ci["raw"] or any(v is None for v in ci["x"]):
            continue
        cols = a.get("cols")
        if cols == "bad-shape" or len(cols) != d or any(len(col) != len(ci["x"]) for col in cols):
            return "poly: follow-up output has the wrong shape"
        ty = (_arr([fl(v) for v in ci["x"]]) - m) / sc
        for j in range(d):
            if any(isinstance(v, str) for v in cols[j]):
                return f"poly: nan/inf in follow-up column {j} although the follow-up vector has no missing value"
            got = _arr(cols[j])
            V = numpy.vander(ty, len(coefs[j]), increasing=True)
            want = V @ coefs[j]
            size = numpy.abs(V) @ numpy.abs(coefs[j])
            if got.shape != want.shape or numpy.any(numpy.abs(got - want) > 1e-7 * size + 1e-9):
                return (f"poly: follow-up column {j} is not the polynomial fitted on the first data set evaluated at "
                        f"the new data: got {got.tolist()[:4]}, want {want.tolist()[:4]}")
    return None


def _bool_degree(call):
    pos, kws = written_poly(call)
    return (bool(pos) and isinstance(arg_value(pos[0]), bool)) or any(k == "degree" and isinstance(arg_value(v), bool) for k, v in kws)


def oracle_poly(c, o):
    calls = o.get("calls", [])
    if not calls:
        return None
    c0, a0 = c["calls"][0], calls[0]
    if "error" in a0:
        if c0["raw"] and c0["degree"] == 0 and a0["error"] == "ValueError":
            return None  # numpy.stack of no columns; the property does not speak about an empty raw basis
        if c0["degree"] < 0 and a0["error"] == "ValueError":
            return None  # not a degree
        if (c0.get("bad") or _bool_degree(c0)) and a0["error"] == "TypeError":
            return None  # an ill-formed argument list / `True` written for the degree
        return f"poly raised {a0['error']} on its fitting data"
    if c0.get("bad") or c0["degree"] < 0:
        return None
    d = c0["degree"]
    xs = c0["x"]
    nulls = [v is None for v in xs]
    cols = a0.get("cols")
    if cols == "bad-shape" or len(cols) != d or any(len(col) != len(xs) for col in cols):
        return f"poly returned shape {'?' if cols == 'bad-shape' else (len(cols[0]) if cols else 0, len(cols))}, expected ({len(xs)}, {d})"
    # missing values propagate row-wise: a NaN row in gives a NaN row out, nothing else is NaN
    distinct = _distinct_nonnull(xs)
    enough = c0["raw"] or distinct > d
    for j, col in enumerate(cols):
        for r, v in enumerate(col):
            if nulls[r] and v != "nan":
                return f"poly: row {r} is missing in the input but output[{r},{j}] = {v!r}"
            if not nulls[r] and isinstance(v, str) and enough:
                return f"poly: output[{r},{j}] = {v} although x[{r}] is present and there are {distinct} distinct values for degree {d}"
    x = _arr([fl(v) for v in xs if v is not None])
    if c0["raw"]:
        for j, col in enumerate(cols):
            got = _arr([v for v, isn in zip(col, nulls) if not isn])
            if not numpy.allclose(got, x ** (j + 1), rtol=1e-12, atol=0):
                return f"poly(raw): column {j} is not x**{j + 1}"
        return None
    if enough and d >= 1:
        Q = numpy.array([[float(v) for v, isn in zip(col, nulls) if not isn] for col in cols]).T  # m x d
        # the data are not affected by the NaN rows: same result as on the vector without them
        G = Q.T @ Q
        if not numpy.allclose(G, numpy.eye(d), atol=1e-8):
            return f"poly: columns are not orthonormal on the fitting data (max |Q'Q - I| = {numpy.abs(G - numpy.eye(d)).max()!r})"
        s = Q.sum(axis=0)
        if numpy.abs(s).max() > 1e-8 * math.sqrt(len(x)):
            return f"poly: a column is not orthogonal to the constant (column sums {s.tolist()})"
        # same span as the raw powers (together with the constant): project the centred/scaled powers
        t = (x - x.mean()) / (numpy.abs(x - x.mean()).max() or 1.0)
        B = numpy.column_stack([numpy.ones(len(x))] + [Q[:, j] for j in range(d)])
        for k in range(1, d + 1):
            v = t ** k
            resid = v - B @ numpy.linalg.lstsq(B, v, rcond=None)[0]
            if numpy.abs(resid).max() > 1e-7 * max(1.0, numpy.abs(v).max()):
                return f"poly: x**{k} (affinely rescaled) is not in the span of [1, poly columns] (residual {numpy.abs(resid).max()!r})"
        if numpy.linalg.matrix_rank(B, tol=1e-8) != d + 1:
            return "poly: [1, poly columns] do not have full column rank"
    # follow-up vectors: same recorded polynomials (three-term recurrence with the recorded alpha / norms2)
    if not enough:
        return None  # a zero norm was recorded (fewer distinct values than degree + 1): 0/0, nothing is claimed
    st0 = a0["state"]
    if any(isinstance(v, str) for key in st0 for v in (st0[key] if isinstance(st0[key], list) else [])):
        return None
    if c.get("route") in LIBRARY_RECORDED and d >= 1:
        why = _same_polynomials(c, calls, d, x, Q)
        if why:
            return why
    for i in range(1, len(calls)):
        a, ci = calls[i], c["calls"][i]
        if "error" in a:
            if ci["degree"] > d or (ci["raw"] and ci["degree"] == 0) or ci["degree"] < 0:
                continue  # a degree that was never fitted cannot be replayed; the property does not speak about it
            if (ci.get("bad") or _bool_degree(ci)) and a["error"] == "TypeError":
                continue  # an ill-formed argument list / `True` written for the degree
            return f"poly raised {a['error']} on follow-up data"
        if ci.get("bad") or ci["degree"] < 0:
            continue
        if a["state"] != st0:
            return f"poly: recorded alpha/norms2 changed on follow-up data"
        if ci["degree"] > d:
            continue
        al, n2 = st0.get("alpha", []), st0.get("norms2", [])
        if len(al) < ci["degree"] or len(n2) < ci["degree"] + 1:
            continue  # no recorded coefficients to replay by hand (the outputs were compared above where the library keeps the state)
        nulls_i = [v is None for v in ci["x"]]
        y = _arr([fl(v) for v in ci["x"] if v is not None])
        P = [numpy.ones(len(y))]
        for k in range(1, ci["degree"] + 1):
            p = (y - al[k - 1]) * P[k - 1]
            if k >= 2:
                p = p - (n2[k - 1] / n2[k - 2]) * P[k - 2]
            P.append(p)
        for j in range(ci["degree"]):
            want = P[j + 1] / math.sqrt(n2[j + 1])
            col = a["cols"][j]
            if any((v == "nan") != isn for v, isn in zip(col, nulls_i)):
                return f"poly: NaN rows of the follow-up vector are not exactly the NaN rows of the output"
            got = _arr([v for v, isn in zip(col, nulls_i) if not isn])
            if not numpy.allclose(got, want, rtol=1e-9, atol=1e-9):
                return f"poly: follow-up column {j} is not the recorded polynomial applied to the new data"
    return None


def oracle_elem(c, o):
    if o.get("missing"):
        return f"the elementwise function {c['name']!r} is not preloaded (missing from TRANSFORMS)"
    name = c["name"]
    dtype = c.get("dtype", "float64")
    x = float(_elem_point(name, c["k"])) if c["kind"] == "elem" else fl(c["x"])
    shown = f"{name}({x!r} stored as {dtype})" if dtype != "float64" else f"{name}({x!r})"
    want = float(_elem_true(name, c["k"])) if c["kind"] == "elem" else REAL[name](x)
    extra = " [exp10(x) must be 10**x]" if name == "exp10" else ""
    for via in ("direct", "formula"):
        if via not in o:
            continue
        v = o[via]
        if isinstance(v, str):
            return f"{shown} = {v} ({via}); the function its name denotes gives {want!r}{extra}"
        if c["kind"] == "elem":
            ok = _matches_exact(float(v), _elem_true(name, c["k"]))
        else:
            ok = abs(float(v) - want) <= 1e-12 * max(abs(want), 1e-300)
        if not ok:
            return f"{shown} = {v!r} ({via}) but the function its name denotes gives {want!r}{extra}"
    if "roundtrip" in o:
        rt = o["roundtrip"]
        if isinstance(rt, str) or abs(float(rt) - x) > 1e-9 * max(1.0, abs(x)):
            return f"{PARTNER[name]}({shown}) = {rt!r}: {name} and {PARTNER[name]} are not inverse to each other"
    return None


def oracle(c, o):
    if "harness_exception" in o:
        return "harness could not run the implementation: " + o["harness_exception"]
    if c["kind"] == "names":
        missing = sorted(set(ELEM_NAMES) - set(o.get("live", [])))
        return f"elementwise functions not preloaded into formulas: {missing}" if missing else None
    if c["kind"] == "scale":
        return oracle_scale(c, o)
    if c["kind"] == "comp":
        return oracle_comp(c, o)
    if c["kind"] == "poly":
        return oracle_poly(c, o)
    if c["kind"] == "Q":
        # Q("name") is the data column of that name, whatever else carries the name
        has_data_layer = c["env"] == "materializer" or (c["env"] == "named" and c["layer"] == "data")
        if has_data_layer and c["variable"] in c["columns"] and o != dict(value="data:" + c["variable"]):
            return f"Q({c['variable']!r}) on data with columns {c['columns']} (context {c['context']}): {o}"
        return None
    if c["kind"] == "treatment":
        ref, levels = c["reference"], c["levels"]
        if not o.get("is_treatment"):
            return f"Treatment({'' if ref is None else repr(ref)}) is not treatment coding with that reference level"
        if ref is not None and ref not in levels:
            return None if "error" in o else f"Treatment({ref!r}) accepted a reference that is no level of {levels}"
        if "error" in o:
            return f"C(a, Treatment({'' if ref is None else repr(ref)})) raised {o['error']} on levels {levels}"
        base = levels[0] if ref is None else ref
        want = [str(l) for l in levels if (l != base or not c["intercept"])]
        if o["fields"] != want or o["marks"] != [[w] for w in want] or not o["same_as_contr_treatment"]:
            return (f"C(a, Treatment({'' if ref is None else repr(ref)})) with{'' if c['intercept'] else 'out'} intercept on levels "
                    f"{levels}: columns {o['fields']} marking {o['marks']}, expected one indicator per level in {want}")
        return None
    if c["kind"] == "identity":
        want = [fl(v) for v in c["data"]]
        if not o.get("same") or o.get("values") != want:
            return f"I(x) is not x: same object {o.get('same')}, column {o.get('values')[:4]} for data {want[:4]}"
        return None
    return oracle_elem(c, o)


def classify(c, o, why):
    # C13-F1: naive float64 arithmetic on extreme magnitudes / large common offsets (IEEE range and rounding are not
    # modelled: the model is exact, the oracle states the property).  The signature is a property of the DATA alone.
    if extreme_data(c):
        return "C13-F1"
    # C13-F2: one call text executed on several vectors shares one state entry: the FIRST execution meets the contract
    # (and agrees with the model), a later one does not
    if c.get("kind") == "comp" and len(c["vectors"]) >= 2 and isinstance(o, dict) and "cols" in o:
        bad = [j for j, _ in comp_failures(c, o)]
        if bad and 0 not in bad and o.get("nstate") == 1:
            return "C13-F2"
    # C13-F3: the preloaded log / exp ufuncs on a narrow storage type: the observed value is the named function, but
    # evaluated in float16 / float32
    if isinstance(o, dict) and narrow_loop_result(c, o):
        return "C13-F3"
    return None


LEVEL_TEXT = (
    "Proof: 38 Lean theorems (Props/C13.lean) about the executable models, stated for ALL vectors, lengths, flags, "
    "ddof, degrees, states and follow-up vectors over an arbitrary field (and over the reals with Real.sqrt). "
    "scale/center/standardize: zero mean, unit standard deviation (about the mean, or about the chosen centre for "
    "center=False/number), recorded statistics re-applied and never refitted - also through the entry points as a "
    "caller reaches them (Model/ScaleEntry.lean: argument binding against the LIVE signatures incl. the defaults "
    "ddof=1 / ddof=0 / keyword `rescale`, center = scale(scale=False), the singledispatch branch for scipy.sparse "
    "with its ValueError), with any of the three names on the follow-up call; a flag handed over as a numpy boolean "
    "(numpy.bool_, 0-d boolean array) gives exactly the result of the Python bool, through every entry point and in "
    "every position (numpy_bool_is_flag). The key under which the library keeps "
    "the statistics of `f(`name`, ...)` is the call as the user wrote it (name back-quoted unless Python reads it back "
    "unchanged) for ANY column name and ANY other names in the data / context - the stand-in identifier does depend on "
    "them, the key does not (Model/TransformKey.lean over C15's sanitiser model; state_key_of_call, "
    "state_key_ignores_other_columns). poly: general three-term-recurrence "
    "orthogonality and its instance (orthonormal, orthogonal to 1), monic degree-k polynomials; the RETURNED normalised "
    "columns together with the constant span the raw powers for every degree; raw=True is exactly the raw powers for "
    "every degree (ValueError at 0) and leaves the state alone; a missing value inserted at ANY position changes only "
    "that row; recorded alpha/norms2 replayed, and after ANY successful call from ANY state every later successful call "
    "returns the state unchanged and applies fixed functions of the record row-wise (never refits); over the reals the "
    "hypothesis norms2[k] != 0 is a property of the data: poly(xs, d) is finite EXACTLY when xs has more than d distinct "
    "non-missing values, and then the columns are orthonormal and orthogonal to 1; binding, defaults, bool/negative degree "
    "and column names. elementwise: "
    "exp/log inverse pairs and exp10 x = 10^x over the reals for the functions the model table names, and (decided "
    "against the regenerated live table) each name's live object IS numpy's ufunc of that name / a callable probed to "
    "be 10^x; every one of the 26 preloaded names meets a stated contract (stateful marker for the transforms that "
    "record statistics). Q reads the data layer only; Treatment(r) is treatment coding with base r; I is the identity. "
    "The models are tied to the code by a differential correspondence on every run (every container and storage type "
    "the library passes, incl. unsigned and logical storage whose own arithmetic would wrap around); that the state reaches the transform on follow-up data (however the call is spelled, wherever "
    "it sits in the factor, through each public entry point, "
    "whatever the column is called and whatever unused columns the follow-up data carry) is tied by the `ref` stream, which "
    "also compares the recorded key with the model's on every data set."
)
LEVEL_NOTE = (
    "Partial: libm accuracy of exp/log/sqrt and IEEE rounding are observed (exact probes, 1e-12 / 1e-9 tolerances), "
    "not proved; numpy's nan/inf outcomes are collapsed to one `nonFinite` outcome in the model; the conversion of a "
    "container to the vector of its numbers (numpy.array, toarray) is numpy's and enters the model as that vector; "
    "matrix-valued (2-D) input to scale and dict-valued data are outside this property's model. Known findings, "
    "generated and reported on every run: C13-F1 (extreme magnitudes / large common offsets: float64 range and rounding, "
    "not modelled), C13-F2 (one call text executed on several vectors shares one state entry), C13-F3 (log/exp on "
    "narrow storage types run in float16/float32)."
)
