"""C05 — Output types, entry points and materializers agree with one another.

Tie between model and source
* `Gen.kindTable` (regenerated on every run from the live `_is_categorical` of the pandas materializer, the
  narwhals materializer on a pandas frame and on a pyarrow table): `Props.C05.kind_tables_agree` is decided over it.
* stream `outputs`: a formula/data generator (text, categorical, numeric, bool columns of several dtypes, nulls,
  interactions, `C(...)` with contrasts, a transform from the context mapping, literal scalings) x
  {pandas, numpy, sparse} x {pandas materializer, narwhals on the pandas frame, narwhals on the pyarrow table}
  x {top-level function, formula method, model-spec method with/without overrides, materializer method}
  x null policies. All variants of one case must produce the same value matrix and the same
  `model_spec.column_names` (oracle: pairwise equality of the implementation's own outputs); the plumbing model
  (`Model/EntryPoints.lean`) is tied by wrapping `FormulaMaterializer.get_model_matrix` / `_prepare_model_specs`
  at run time and comparing the recorded request with the model's `requestVia`.
  The model-spec entry points are ALSO exercised on a spec that already has structure — the spec attached to the matrix
  of one variant: `mm.model_spec.get_model_matrix(data)`, `model_matrix(mm.model_spec, data)`, `model_matrix(mm, data)`,
  `Materializer(data).get_model_matrix(mm.model_spec)`, and `mm.model_spec.get_model_matrix(data', materializer=, output=)`
  under another materializer/input/output combination. Same formula, data and options: they join the same pairwise
  comparison, and their recorded requests are compared with `requestVia` on the corresponding ModelSpec call record.
* stream `reuse`: ONE materializer instance answers 2-4 `get_model_matrix` calls in a row (other formulas, output types,
  ensure_full_rank, null policies, clustering; the formula text, the spec of the previous call's matrix, or a spec
  trained on the first rows only); every call must give the matrix a fresh instance gives for the same call (oracle:
  equality of the implementation's own outputs; no model).
* stream `entry`: random call records (formula / structured formula / ModelSpec / ModelSpecs with assorted
  materializer settings, overrides incl. invalid ones, context mapping or none, a drop_rows set or none, data the
  registry knows or not) through every applicable entry point against `requestVia`.
* stream `sparseops`: the real `scipy.sparse` operations the sparse path uses (`csc_matrix(dense)`, `.multiply`,
  scalar `*`, `hstack`) and `categorical_encode_series_to_sparse_csc_matrix`, plus the real
  `PandasMaterializer._get_columns_for_term` + `_combine_columns` for output sparse and numpy, against
  `Model/Sparse.lean` (stored entries, CSC arrays and dense values).
"""
from __future__ import annotations

import math
import warnings
from fractions import Fraction

import numpy
import pandas

PROPERTY = "C05"
ENGINE = "c05"
REQUIRED_THEOREMS = [
    "kind_tables_agree",
    "sparse_of_dense",
    "sparse_multiply",
    "sparse_scale",
    "sparse_encode",
    "sparse_hstack",
    "sparse_refines_dense",
    "entry_points_agree",
    "entry_points_fail_together",
    "drop_rows_forwarding",
    "context_layering",
]
TRUSTED = [
    "modelled, not verified: scipy's CSC storage and arithmetic, numpy broadcasting, narwhals' conversions, pyarrow memory "
    "layout — only their observable values (stored entries / dense values) enter the correspondence",
    "`FormulaMaterializer.for_data(data)` is a parameter of the plumbing model: the harness passes the registered name the "
    "live registry returns for the data at hand; the registry itself (`REGISTER_NAME -> REGISTER_OUTPUTS`) and the NAAction "
    "values are generated tables",
    "frame capture (`context=<int>` of `model_matrix`) is not modelled; formulas, data, context mappings, drop_rows sets and "
    "materializer params are opaque identities in the plumbing model",
    "the whole-matrix agreement of the three materializer/input combinations is established by the `outputs` stream "
    "(pairwise equality of the implementation's own outputs) and by `kind_tables_agree`; narwhals/pyarrow conversions are not proved",
    "reuse of a spec that already has structure (`ScopedTerm.rehydrate`, `_enforce_structure`, recorded encoder state) and reuse "
    "of one materializer instance for several calls (`factor_cache`/`encoded_cache`) are not modelled: the `outputs` and `reuse` "
    "streams compare the real code's matrices with one another (spec-based vs formula-based entry points; reused vs fresh "
    "instance); only the plumbing of the spec-based calls is tied to `requestVia`",
]
ASSUMPTIONS = [
    "sparse_refines_dense: every evaluated factor has one value per row (`srcOK`: numpy/scipy enforce equal shapes) and the "
    "levels of a categorical factor are distinct (pandas enforces unique categories)",
    "entry_points_agree compares the requests modulo the `drop_rows` argument (its forwarding is property C06's concern; "
    "`drop_rows_forwarding` states exactly what the code does); ModelSpec values in a call are valid (constructed by the "
    "library); the materializer-method entry point is compared when the leaves of a structured spec agree on a materializer",
]
RULE = (
    "outputs: frames of 1-6 rows (quick; up to 30 thorough) with 1-2 text/categorical columns (object, str, string[pyarrow], "
    "category with declared order and unused categories), 1-2 numeric columns (float64/int64, dyadic values), a bool column, "
    "nulls in 30% of the cases; formulas of 1-4 terms over names, C(x[, contr.*]), I(), a context function, interactions up "
    "to degree 3, literal scalings, intercept on/off; x ensure_full_rank x na_action x cluster_by; 9 output/materializer "
    "variants through the top-level function plus the 4 other entry points at one random variant, plus the model-spec entry "
    "points on the spec attached to that variant's matrix (spec method, top-level function on the spec and on the matrix, "
    "materializer method; and the spec method with a random other materializer/input/output as overrides). reuse: frames of "
    "2-6 rows (20 thorough, nulls in 40%), one pandas/narwhals/narwhals-on-arrow materializer instance, 2-4 calls with random "
    "formula (the first one again in half of the calls), output, ensure_full_rank, na_action, cluster_by, given as formula "
    "text / spec of the previous matrix / spec trained on the first half of the rows; each call against a fresh instance. "
    "entry: random call records "
    "(see module docstring). sparseops: random sparse/dense columns of 0-7 rows, 1-3 factors per term, 1-3 terms. "
    "non-trivial = outputs case with an interaction or a categorical column, reuse case with two different calls, entry case "
    "with a structured spec or overrides, "
    "sparseops case with at least two factors; distinct by canonical JSON"
)

MATS = ["pandas", "narwhals", "arrow"]
OUTPUTS = ["pandas", "numpy", "sparse"]
ENTRIES = ["sugar", "formula", "spec", "spec_ov", "materializer"]
# entry points on a spec that already has structure (attached to an earlier matrix); the last one changes materializer/output
RESPEC = ["respec_method", "respec_sugar", "respec_matrix", "respec_materializer", "respec_cross"]
INEXACT = ("contr.poly", "contr.diff", "contr.helmert", "contr.sum", "contr.SAS")


def fstr(x) -> str:
    fr = Fraction(x)
    return str(fr.numerator) if fr.denominator == 1 else f"{fr.numerator}/{fr.denominator}"


def cellstr(x) -> str:
    try:
        if math.isnan(x):
            return "nan"
    except TypeError:
        return "obj:" + str(x)
    return fstr(Fraction(float(x)))


def dbl(v):
    return v * 2


CONTEXT = {"dbl": dbl}

# ----------------------------------------------------------------------------- recording


class Recorder:
    """wraps FormulaMaterializer.get_model_matrix/_prepare_model_specs while active and records every request"""

    def __init__(self, world):
        self.world = world  # dict: data, context, drop, formula_ids
        self.records = []

    def __enter__(self):
        from formulaic import ModelSpec
        from formulaic.materializers import FormulaMaterializer

        self.cls = FormulaMaterializer
        self.orig_gmm = FormulaMaterializer.get_model_matrix
        self.orig_prep = FormulaMaterializer._prepare_model_specs
        rec = self

        def gmm(self, spec, drop_rows=None, **overrides):
            entry = {"self": self, "drop": drop_rows, "prepared": None, "simplify": None}
            rec.records.append(entry)
            self._verif_entry = entry
            return rec.orig_gmm(self, spec, drop_rows=drop_rows, **overrides)

        def prep(self, spec):
            out = rec.orig_prep(self, spec)
            e = getattr(self, "_verif_entry", None)
            if e is not None:
                e["prepared"] = out
                e["simplify"] = isinstance(spec, ModelSpec)
            return out

        FormulaMaterializer.get_model_matrix = gmm
        FormulaMaterializer._prepare_model_specs = prep
        return self

    def __exit__(self, *a):
        self.cls.get_model_matrix = self.orig_gmm
        self.cls._prepare_model_specs = self.orig_prep

    def canonical(self):
        w = self.world
        out = []
        for e in self.records:
            m = e["self"]
            if e["prepared"] is None:
                out.append({"unprepared": True, "mat": type(m).REGISTER_NAME})
                continue
            leaves = list(e["prepared"]._flatten())
            out.append(
                dict(
                    mat=type(m).REGISTER_NAME,
                    data=0 if m.data is w["data"] else -1,
                    context=None if not m.context else (1 if m.context is w["context"] else -1),
                    layers=[getattr(l, "name", None) for l in m.layered_context._layers],
                    params=w["params_id"](m.params),
                    specs=[dict(k=str(i), ms=ms_json(ms, w)) for i, ms in enumerate(leaves)],
                    simplify=bool(e["simplify"]),
                    dropRows=None if e["drop"] is None else (1 if e["drop"] is w["drop"] else -1),
                )
            )
        return out


def ms_json(ms, w):
    return dict(
        formula=w["formula_id"](ms.formula),
        materializer=ms.materializer,
        params=w["params_id"](ms.materializer_params),
        efr=bool(ms.ensure_full_rank),
        na=ms.na_action.value,
        output=ms.output,
        cluster=ms.cluster_by.value,
    )


# ----------------------------------------------------------------------------- stream `entry`

FORMULAS = ["x", "x + a", "a:x - 1", "y ~ z:x", "w ~ x + a + z", "x + z"]  # id = index; "y ~ …" are structured
PARAMS = [None, {"p": 1}, {"q": 2}]  # materializer params by id (0: none/empty)


def gen_ms(rng, allow_struct=False):
    return dict(
        formula=rng.choice([0, 1, 2, 5]),
        materializer=rng.choice([None, None, "pandas", "narwhals"]),
        params=rng.choice([0, 0, 0, 1]),
        efr=rng.random() < 0.7,
        na=rng.choice(["drop", "drop", "raise", "ignore"]),
        output=rng.choice([None, None, "pandas", "numpy", "sparse"]),
        cluster=rng.choice(["none", "none", "numerical_factors"]),
    )


def gen_overrides(rng, malformed):
    ov = []
    if rng.random() < 0.45:
        ov.append(["materializer", rng.choice(["pandas", "narwhals", None] + (["nope"] if malformed else []))])
    if rng.random() < 0.4:
        ov.append(["ensure_full_rank", rng.random() < 0.5])
    if rng.random() < 0.4:
        ov.append(["na_action", rng.choice(["drop", "raise", "ignore"] + (["bogus"] if malformed else []))])
    if rng.random() < 0.5:
        ov.append(["output", rng.choice(["pandas", "numpy", "sparse", "narwhals", None] + (["nope"] if malformed else []))])
    if rng.random() < 0.3:
        ov.append(["cluster_by", rng.choice(["none", "numerical_factors"] + (["zzz"] if malformed else []))])
    if rng.random() < 0.15:
        ov.append(["materializer_params", rng.choice([1, 2])])
    if malformed and rng.random() < 0.4:
        ov.append(["bogus_option", 1])
    rng.shuffle(ov)
    return ov


def gen_entry_case(rng):
    malformed = rng.random() < 0.25
    r = rng.random()
    if r < 0.35:
        spec = dict(t="formula", f=rng.choice([0, 1, 2, 5]))
    elif r < 0.5:
        spec = dict(t="sformula", f=rng.choice([3, 4]))
    elif r < 0.8:
        spec = dict(t="mspec", ms=gen_ms(rng))
    else:
        a, b = gen_ms(rng), gen_ms(rng)
        if rng.random() < 0.5:  # make the leaves agree more often
            b["materializer"] = rng.choice([a["materializer"], None])
            b["params"] = a["params"]
        for leaf in (a, b):  # leaves of one ModelSpecs must agree on these (else RuntimeError in the library)
            leaf["efr"], leaf["na"], leaf["output"] = a["efr"], a["na"], a["output"]
        spec = dict(t="mspecs", parts=[a, b])
    data = rng.choice(["pandas", "pandas", "arrow", "unsupported"] if malformed else ["pandas", "pandas", "arrow"])
    ov = gen_overrides(rng, malformed)
    if data != "pandas":
        # the pandas materializer cannot work on a pyarrow table / a list: keep the materialisation itself feasible
        fix = (lambda m: "narwhals" if m == "pandas" else m) if data == "arrow" else (lambda m: None if m in ("pandas", "narwhals") else m)
        ov = [[k, fix(v)] if k == "materializer" else [k, v] for k, v in ov]
        for leaf in ([spec["ms"]] if spec["t"] == "mspec" else spec.get("parts", []) if spec["t"] == "mspecs" else []):
            leaf["materializer"] = fix(leaf["materializer"])
    return dict(kind="entry", spec=spec, data=data, context=rng.random() < 0.5, drop=rng.random() < 0.5, overrides=ov)


def _ov_kwargs(ov):
    kw = {}
    for k, v in ov:
        if k == "materializer_params":
            v = PARAMS[v]
        kw[k] = v
    return kw


def _world(c):
    import pyarrow

    df = pandas.DataFrame({"y": [1.0, 2.0, 4.0], "w": [0.0, 1.0, 1.0], "x": [0.5, 1.0, -2.0], "z": [3.0, 1.0, 2.0], "a": pandas.Categorical(["u", "v", "u"])})
    kind = c["data"]
    data = df if kind == "pandas" else (pyarrow.Table.from_pandas(df, preserve_index=False) if kind == "arrow" else [1, 2, 3])
    from formulaic import Formula
    from formulaic.formula import StructuredFormula

    printed = {}
    for i, f in enumerate(FORMULAS):
        F = Formula(f)
        if isinstance(F, StructuredFormula):
            for j, part in enumerate(F._flatten()):
                printed[str(part)] = 100 + 10 * i + j
        else:
            printed[str(F)] = i

    def formula_id(F):
        return printed.get(str(F), -1)

    def params_id(p):
        if not p:
            return None
        for i, q in enumerate(PARAMS):
            if q == p:
                return i
        return -1

    return dict(data=data, context=dict(CONTEXT) if c["context"] else None, drop=set() if c["drop"] else None,
                formula_id=formula_id, params_id=params_id)


def _make_ms(d):
    from formulaic import Formula, ModelSpec

    return ModelSpec(formula=Formula(FORMULAS[d["formula"]]), materializer=d["materializer"], materializer_params=PARAMS[d["params"]],
                     ensure_full_rank=d["efr"], na_action=d["na"], output=d["output"], cluster_by=d["cluster"])


def _spec_object(spec):
    from formulaic import Formula, ModelSpecs

    if spec["t"] in ("formula", "sformula"):
        return FORMULAS[spec["f"]]
    if spec["t"] == "mspec":
        return _make_ms(spec["ms"])
    return ModelSpecs(lhs=_make_ms(spec["parts"][0]), rhs=_make_ms(spec["parts"][1]))


def _data_mat(data):
    from formulaic.materializers import FormulaMaterializer

    try:
        return FormulaMaterializer.for_data(data).REGISTER_NAME
    except Exception:
        return None


def _joint(leaves):
    """the `for ... else` of ModelSpecs.get_model_matrix on (materializer, params) pairs -> (materializer, params) | None"""
    m, p = None, None
    for lm, lp in leaves:
        if not lm:
            continue
        if m not in (None, lm) or p not in (None, lp):
            return None
        m, p = lm, (lp or None)
    return (m, p)


def _effective(spec_obj, kw):
    """(materializer, params) of the effective spec `ModelSpec.from_spec(spec, **ov)`; None: the leaves disagree"""
    from formulaic import ModelSpec

    eff = ModelSpec.from_spec(spec_obj, **kw)
    if isinstance(eff, ModelSpec):
        return (eff.materializer, eff.materializer_params)
    return _joint([(ms.materializer, ms.materializer_params) for ms in eff._flatten()])


class NotApplicable(Exception):
    pass


def run_entry(c, entry, w, spec_obj):
    """returns ({'error': cls} | {'requests': [...]}, result)"""
    from formulaic import Formula, ModelSpec, model_matrix

    kw = _ov_kwargs(c["overrides"])
    data, ctx, d = w["data"], w["context"], w["drop"]
    res = None
    with Recorder(w) as rec:
        try:
            with warnings.catch_warnings():
                warnings.simplefilter("ignore")
                if entry == "sugar":
                    res = model_matrix(spec_obj, data, context=ctx if ctx is not None else {}, drop_rows=d, **kw)
                elif entry == "formula":
                    res = Formula(spec_obj).get_model_matrix(data, context=ctx, drop_rows=d, **kw)
                elif entry == "spec":
                    res = ModelSpec.from_spec(spec_obj, **kw).get_model_matrix(data, context=ctx, drop_rows=d)
                elif entry == "spec_ov":
                    res = ModelSpec.from_spec(spec_obj).get_model_matrix(data, context=ctx, drop_rows=d, **kw)
                elif entry == "materializer":
                    from formulaic.materializers import FormulaMaterializer

                    eff = _effective(spec_obj, kw)
                    if eff is None:
                        raise NotApplicable()
                    cls = FormulaMaterializer.for_data(data) if eff[0] is None else FormulaMaterializer.for_materializer(eff[0])
                    res = cls(data, context=ctx, **(eff[1] or {})).get_model_matrix(spec_obj, drop_rows=d, **kw)
        except NotApplicable:
            return {"n/a": True}, None
        except Exception as e:
            return {"error": type(e).__name__, "msg": str(e)[:160], "partial": rec.canonical()}, None
        return {"requests": rec.canonical()}, res


def applicable(c, entry):
    if entry == "formula":
        return c["spec"]["t"] in ("formula", "sformula")
    return True


def impl_entry(c):
    w = _world(c)
    out = {"dataMat": _data_mat(w["data"]), "entries": {}}
    for e in ENTRIES:
        if not applicable(c, e):
            continue
        spec_obj = _spec_object(c["spec"])  # fresh objects per entry: materialisation mutates state dicts
        w2 = dict(w, drop=set() if c["drop"] else None)
        r, _ = run_entry(c, e, w2, spec_obj)
        if "n/a" not in r:
            out["entries"][e] = r
    return out


def ms_request(d):
    return dict(formula=d["formula"], materializer=d["materializer"], params=d["params"] or None, efr=d["efr"], na=d["na"],
                output=d["output"], cluster=d["cluster"])


def entry_request(c, o):
    sp = c["spec"]
    if sp["t"] == "formula":
        spec = dict(t="formula", f=sp["f"])
    elif sp["t"] == "sformula":
        spec = dict(t="sformula", parts=[dict(k=str(j), f=100 + 10 * sp["f"] + j) for j in range(2)])
    elif sp["t"] == "mspec":
        spec = dict(t="mspec", ms=ms_request(sp["ms"]))
    else:
        spec = dict(t="mspecs", parts=[dict(k=str(j), ms=ms_request(p)) for j, p in enumerate(sp["parts"])])
    return dict(
        op="entry",
        call=dict(spec=spec, data=0, dataMat=o.get("dataMat"), context=1 if c["context"] else None,
                  dropRows=1 if c["drop"] else None, overrides=[dict(k=k, v=v) for k, v in c["overrides"]]),
    )


def _norm_requests(rs):
    """model and impl name the leaves of a structured spec by position"""
    out = []
    for r in rs:
        r = dict(r)
        r["specs"] = [dict(k=str(i), ms=s["ms"]) for i, s in enumerate(r["specs"])]
        out.append(r)
    return out


def agree_entry(c, o, m):
    for e, got in o["entries"].items():
        want = m.get(e)
        if want is None:
            return f"model has no answer for entry point {e}"
        if "error" in got or "error" in want:
            if "error" in got and "error" in want:
                if got["error"] != want["error"]:
                    return f"entry point {e}: impl raised {got['error']} ({got.get('msg')}), model {want['error']}"
                continue
            return f"entry point {e}: impl {got.get('error', 'ok')} ({got.get('msg', '')}) vs model {want.get('error', 'ok')}"
        a, b = _norm_requests(got["requests"]), _norm_requests(want["requests"])
        if a != b:
            for x, y in zip(a, b):
                if x != y:
                    diff = {k: (x.get(k), y.get(k)) for k in set(x) | set(y) if x.get(k) != y.get(k)}
                    return f"entry point {e}: recorded request differs from the model's (impl, model): {diff}"
            return f"entry point {e}: {len(a)} request(s) recorded, model has {len(b)}"
    return None


def _erase_drop(rs):
    return [dict(r, dropRows=None) for r in rs]


def oracle_entry(c, o):
    """property: every pair of entry points hands the same request to the materializer (drop_rows aside)"""
    ok = {e: r for e, r in o["entries"].items() if "requests" in r}
    bad = {e: r for e, r in o["entries"].items() if "error" in r}
    names = sorted(ok)
    for i in range(len(names)):
        for j in range(i + 1, len(names)):
            a, b = _erase_drop(ok[names[i]]["requests"]), _erase_drop(ok[names[j]]["requests"])
            if a != b:
                return f"entry points {names[i]} and {names[j]} hand different requests to the materializer: {a} vs {b}"
    if ok and bad:
        # the top-level function additionally resolves a materializer for the bare data before looking at the spec
        others_bad = {e: r for e, r in bad.items() if e != "sugar"}
        if others_bad and any(e != "sugar" for e in ok):
            return f"entry points {sorted(ok)} succeed but {sorted(others_bad)} fail with {[r['error'] for r in others_bad.values()]}"
        if "sugar" in bad and o["dataMat"] is not None:
            return f"model_matrix() fails with {bad['sugar']['error']} although {sorted(ok)} succeed"
    return None


# ----------------------------------------------------------------------------- stream `outputs`

LEVEL_POOLS = [["a", "b", "c", "d"], ["u", "v", "w", "z"], ["lo", "mid", "hi", "top"], ["B", "a", "Z", "é"]]
CAT_DTYPES = ["object", "str", "category", "string[pyarrow]"]
CONTRASTS = ["treatment", "sum", "helmert", "SAS", "diff", "poly"]


def gen_frame(rng, nrows, nulls):
    cols = {}
    for name in ["A", "B"][: rng.randint(1, 2)]:
        pool = rng.choice(LEVEL_POOLS)
        k = rng.randint(1, 4)
        levels = rng.sample(pool, k)
        dtype = rng.choice(CAT_DTYPES)
        used = levels if rng.random() < 0.7 else levels[: max(1, k - 1)]
        vals = [rng.choice(used) for _ in range(nrows)]
        if nulls and rng.random() < 0.5:
            vals = [None if rng.random() < 0.2 else v for v in vals]
        cols[name] = dict(dtype=dtype, levels=levels, vals=vals)
    for name in ["x", "y"][: rng.randint(1, 2)]:
        dtype = rng.choice(["float64", "float64", "int64"])
        if dtype == "int64":
            vals = [fstr(rng.randint(-4, 6)) for _ in range(nrows)]
        else:
            vals = [fstr(Fraction(rng.randint(-12, 12), rng.choice([1, 2, 4]))) for _ in range(nrows)]
            if nulls and rng.random() < 0.5:
                vals = [None if rng.random() < 0.2 else v for v in vals]
        cols[name] = dict(dtype=dtype, vals=vals)
    if rng.random() < 0.4:
        cols["t"] = dict(dtype="bool", vals=[rng.random() < 0.5 for _ in range(nrows)])
    return cols


def build_frame(cols):
    out = {}
    for name, c in cols.items():
        dt = c["dtype"]
        if dt == "category":
            out[name] = pandas.Categorical(c["vals"], categories=c["levels"])
        elif dt in ("object", "str", "string[pyarrow]"):
            out[name] = pandas.Series(c["vals"], dtype=object if dt == "object" else dt)
        elif dt == "bool":
            out[name] = pandas.Series(c["vals"], dtype=bool)
        elif dt == "int64":
            out[name] = pandas.Series([int(Fraction(v)) for v in c["vals"]], dtype="int64")
        else:
            out[name] = pandas.Series([numpy.nan if v is None else float(Fraction(v)) for v in c["vals"]], dtype="float64")
    return pandas.DataFrame(out)


def gen_atom(rng, cols):
    cats = [n for n in cols if n in ("A", "B")]
    nums = [n for n in cols if n in ("x", "y")]
    r = rng.random()
    if cats and r < 0.45:
        v = rng.choice(cats)
        q = rng.random()
        if q < 0.55:
            return v
        if q < 0.7:
            return f"C({v})"
        return f"C({v}, contr.{rng.choice(CONTRASTS)})"
    if "t" in cols and r < 0.55:
        return "t"
    v = rng.choice(nums)
    w = rng.choice(nums)
    return rng.choice([v, v, f"I({v} + 1)", f"dbl({v})", f"I({v} * {w})", f"{{{v} - {w}}}"])


def gen_formula(rng, cols):
    terms, seen = [], set()
    for _ in range(rng.randint(1, 4)):
        atoms = []
        for _ in range(rng.choice([1, 1, 2, 2, 3])):
            a = gen_atom(rng, cols)
            if a not in atoms:
                atoms.append(a)
        if frozenset(atoms) in seen:
            continue
        seen.add(frozenset(atoms))
        if rng.random() < 0.2:
            atoms.insert(rng.randrange(len(atoms) + 1), rng.choice(["2", "0.5", "3"]))
        terms.append(":".join(atoms))
    return rng.choice(["", "", "0 + ", "-1 + "]) + " + ".join(terms)


def gen_outputs_case(rng, tier):
    nrows = rng.randint(1, 6 if tier != "thorough" else 30)
    nulls = rng.random() < 0.3
    cols = gen_frame(rng, nrows, nulls)
    return dict(
        kind="outputs",
        cols=cols,
        formula=gen_formula(rng, cols),
        efr=rng.random() < 0.6,
        na=rng.choice(["drop", "drop", "drop", "raise", "ignore"]) if nulls else "drop",
        cluster=rng.random() < 0.25,
        extra=[rng.choice(MATS), rng.choice(OUTPUTS)],
        ctx=True,
        # the model-spec entry points on a spec that ALREADY has structure (the one attached to the matrix of variant
        # `sugar|extra`), and once more under another materializer/input/output combination
        respec=[rng.choice(MATS), rng.choice(OUTPUTS)],
    )


def _matrix_obs(mm, output):
    names = [str(n) for n in mm.model_spec.column_names]
    if hasattr(mm, "toarray"):
        arr = mm.toarray()
    else:
        arr = numpy.asarray(mm)
    arr = numpy.asarray(arr)
    if arr.ndim != 2:
        return dict(names=names, rows=[], shape=list(arr.shape))
    vals = [[cellstr(x) for x in row] for row in arr.tolist()]
    out = dict(names=names, rows=vals, shape=[int(arr.shape[0]), int(arr.shape[1])])
    if output == "pandas":
        out["shown"] = [str(x) for x in mm.columns]
    return out


def impl_outputs(c):
    import pyarrow
    from formulaic import Formula, ModelSpec, model_matrix
    from formulaic.materializers import FormulaMaterializer

    df = build_frame(c["cols"])
    try:
        table = pyarrow.Table.from_pandas(df, preserve_index=False)
    except Exception as e:
        return {"skip": "pyarrow table could not be built: " + type(e).__name__}
    opts = dict(ensure_full_rank=c["efr"], na_action=c["na"], cluster_by="numerical_factors" if c["cluster"] else "none")
    variants = {}
    dummy = dict(data=None, context=None, drop=None, formula_id=lambda F: 0, params_id=lambda p: None if not p else 1)

    built = {}

    def run(entry, mat, output, src=None):
        data = table if mat == "arrow" else df
        kw = dict(opts, output=output)
        if mat == "narwhals":
            kw["materializer"] = "narwhals"
        elif mat == "pandas":
            kw["materializer"] = "pandas"
        ctx = dict(CONTEXT)
        w = dict(dummy, data=data, context=ctx)
        with Recorder(w) as rec:
            try:
                with warnings.catch_warnings():
                    warnings.simplefilter("ignore")
                    if entry == "respec_method":
                        mm = src.model_spec.get_model_matrix(data, context=ctx)
                    elif entry == "respec_sugar":
                        mm = model_matrix(src.model_spec, data, context=ctx)
                    elif entry == "respec_matrix":
                        mm = model_matrix(src, data, context=ctx)
                    elif entry == "respec_materializer":
                        cls = FormulaMaterializer.for_materializer(src.model_spec.materializer)
                        mm = cls(data, context=ctx).get_model_matrix(src.model_spec)
                    elif entry == "respec_cross":
                        # the spec's options stay; only the materializer/input and the output type change
                        mm = src.model_spec.get_model_matrix(data, context=ctx, output=output, materializer="pandas" if mat == "pandas" else "narwhals")
                    elif entry == "sugar":
                        mm = model_matrix(c["formula"], data, context=ctx, **kw)
                    elif entry == "formula":
                        mm = Formula(c["formula"]).get_model_matrix(data, context=ctx, **kw)
                    elif entry == "spec":
                        mm = ModelSpec.from_spec(Formula(c["formula"]), **kw).get_model_matrix(data, context=ctx)
                    elif entry == "spec_ov":
                        mm = ModelSpec.from_spec(Formula(c["formula"])).get_model_matrix(data, context=ctx, **kw)
                    else:
                        cls = FormulaMaterializer.for_materializer(kw["materializer"]) if "materializer" in kw else FormulaMaterializer.for_data(data)
                        mm = cls(data, context=ctx).get_model_matrix(c["formula"], **kw)
            except Exception as e:
                return {"error": type(e).__name__, "msg": str(e)[:160]}
            obs = _matrix_obs(mm, output)
            obs["requests"] = rec.canonical()
            obs["dataMat"] = None
            built[(entry, mat, output)] = mm
            return obs

    for mat in MATS:
        for output in OUTPUTS:
            variants[f"sugar|{mat}|{output}"] = run("sugar", mat, output)
    mat, output = c["extra"]
    for entry in ENTRIES[1:]:
        variants[f"{entry}|{mat}|{output}"] = run(entry, mat, output)
    src = built.get(("sugar", mat, output))
    if c.get("respec") and src is not None:
        # same formula, data and options, handed over as the spec the first materialisation produced
        for entry in RESPEC[:-1]:
            variants[f"{entry}|{mat}|{output}"] = run(entry, mat, output, src)
        mat2, output2 = c["respec"]
        variants[f"respec_cross|{mat2}|{output2}"] = run("respec_cross", mat2, output2, src)
    return {"variants": variants, "dataMat": {"pandas": _data_mat(df), "arrow": _data_mat(table)}}


def _respec_plan(c, o):
    """[(variant key, model entry point, index into the follow-up calls)] + the follow-up call records themselves:
    the spec attached to variant `sugar|extra` (formula 0 with the options and materializer it was built with)
    handed to the model-spec entry points, without overrides and with a materializer/output override"""
    if not c.get("respec"):
        return [], []
    mat, output = c["extra"]
    mat2, output2 = c["respec"]
    name = lambda m: o["dataMat"]["arrow"] if m == "arrow" else m
    ms = dict(formula=0, materializer=name(mat), params=None, efr=c["efr"], na=c["na"], output=output,
              cluster="numerical_factors" if c["cluster"] else "none")
    call = lambda m, ov: dict(spec=dict(t="mspec", ms=ms), data=0, dataMat=o["dataMat"]["arrow" if m == "arrow" else "pandas"],
                              context=1, dropRows=None, overrides=[dict(k=k, v=v) for k, v in ov])
    plan = [(f"respec_method|{mat}|{output}", "spec", 0), (f"respec_sugar|{mat}|{output}", "sugar", 0),
            (f"respec_matrix|{mat}|{output}", "sugar", 0), (f"respec_materializer|{mat}|{output}", "materializer", 0),
            (f"respec_cross|{mat2}|{output2}", "spec_ov", 1)]
    return plan, [call(mat, []), call(mat2, [["output", output2], ["materializer", "pandas" if mat2 == "pandas" else "narwhals"]])]


def outputs_request(c, o):
    """the plumbing of every variant, checked by the same model: one `entry` request per (mat, output) actually used"""
    mat, output = c["extra"]
    ov = [["ensure_full_rank", c["efr"]], ["na_action", c["na"]], ["cluster_by", "numerical_factors" if c["cluster"] else "none"],
          ["output", output]]
    if mat != "arrow":
        ov.append(["materializer", mat])
    return dict(op="entry", call=dict(spec=dict(t="formula", f=0), data=0, dataMat=o["dataMat"]["arrow" if mat == "arrow" else "pandas"],
                                      context=1, dropRows=None, overrides=[dict(k=k, v=v) for k, v in ov]),
                more=_respec_plan(c, o)[1])


def _values_equal(a, b, inexact):
    if a == b:
        return True
    if "nan" in (a, b) or a.startswith("obj:") or b.startswith("obj:"):
        return False
    if not inexact:
        return Fraction(a) == Fraction(b)
    x, y = float(Fraction(a)), float(Fraction(b))
    return abs(x - y) <= 1e-9 * (1 + abs(y))


def _compare_variants(c, va, vb, na, nb):
    if ("error" in va) != ("error" in vb):
        bad, good = (na, nb) if "error" in va else (nb, na)
        e = va if "error" in va else vb
        return f"variant {bad} fails with {e['error']} ({e.get('msg', '')}) while variant {good} produces a matrix"
    if "error" in va:
        return None
    if va["names"] != vb["names"]:
        return f"column names differ: {na} {va['names']} vs {nb} {vb['names']}"
    if va["shape"] != vb["shape"]:
        return f"shapes differ: {na} {va['shape']} vs {nb} {vb['shape']}"
    inexact = any(s in c["formula"] for s in INEXACT)
    for i, (ra, rb) in enumerate(zip(va["rows"], vb["rows"])):
        for j, (x, y) in enumerate(zip(ra, rb)):
            if not _values_equal(x, y, inexact):
                return f"values differ at row {i}, column {va['names'][j]!r}: {na} has {x}, {nb} has {y}"
    return None


def oracle_outputs(c, o):
    if "skip" in o:
        return None
    vs = o["variants"]
    names = list(vs)
    ref = names[0]
    for n in names:
        v = vs[n]
        if "error" not in v and "shown" in v and v["shown"] != v["names"]:
            # a pandas frame cannot show two columns under one name twice unless the names repeat; compare as lists
            if len(v["shown"]) != len(v["names"]) or v["shown"] != v["names"]:
                return f"variant {n}: the frame shows columns {v['shown']} but the attached spec names {v['names']}"
    for n in names[1:]:
        why = _compare_variants(c, vs[ref], vs[n], ref, n)
        if why:
            return why
    return None


def _agree_requests(label, v, want):
    if want is None or "error" in want:
        return f"{label}: model says {want}, implementation produced a matrix"
    a, b = _norm_requests(v["requests"]), _norm_requests(want["requests"])
    if a != b:
        for x, y in zip(a, b):
            if x != y:
                diff = {k: (x.get(k), y.get(k)) for k in set(x) | set(y) if x.get(k) != y.get(k)}
                return f"{label}: recorded request differs from the model's (impl, model): {diff}"
        return f"{label}: {len(a)} request(s) recorded, model has {len(b)}"
    return None


def agree_outputs(c, o, m):
    if "skip" in o:
        return None
    mat, output = c["extra"]
    for entry in ENTRIES:
        v = o["variants"].get(f"{entry}|{mat}|{output}")
        if v is None or "error" in v:
            continue  # a failing materialisation is the oracle's business
        why = _agree_requests(f"entry point {entry} ({mat}, {output})", v, m.get(entry))
        if why:
            return why
    more = m.get("more") or []
    for key, entry, i in _respec_plan(c, o)[0]:
        v = o["variants"].get(key)
        if v is None or "error" in v:
            continue
        why = _agree_requests(f"entry point {key} (spec with structure)", v, more[i].get(entry) if i < len(more) else None)
        if why:
            return why
    return None


# ----------------------------------------------------------------------------- stream `reuse`
# ONE materializer instance serves several `get_model_matrix` calls in a row. The property's "materializer method" entry
# point is `Materializer(data).get_model_matrix(spec, **options)`: for the same spec, data and options it has to give the
# same matrix whatever the instance was asked before, i.e. the same as a fresh instance.

VIA = ["formula", "formula", "formula", "spec_prev", "spec_head"]


def gen_reuse_case(rng, tier):
    nrows = rng.randint(2, 6 if tier != "thorough" else 20)
    nulls = rng.random() < 0.4
    cols = gen_frame(rng, nrows, nulls)
    calls = []
    first = gen_formula(rng, cols)
    for i in range(rng.randint(2, 4)):
        calls.append(dict(
            formula=first if i == 0 or rng.random() < 0.5 else gen_formula(rng, cols),
            output=rng.choice(OUTPUTS),
            efr=rng.random() < 0.6,
            na=rng.choice(["drop", "drop", "ignore", "raise"]) if nulls else "drop",
            cluster=rng.random() < 0.2,
            # formula: the formula text; spec_prev: the spec a FRESH materializer attached to the previous call's matrix
            # (its options stay, the output type is overridden); spec_head: the spec of this call's formula
            # materialised on the first rows only (other encoder state), then used on the whole data
            via=rng.choice(VIA) if i else rng.choice(["formula", "formula", "spec_head"]),
        ))
    return dict(kind="reuse", cols=cols, mat=rng.choice(MATS), calls=calls)


def impl_reuse(c):
    import pyarrow
    from formulaic.materializers import FormulaMaterializer

    df = build_frame(c["cols"])
    if c["mat"] == "arrow":
        try:
            data = pyarrow.Table.from_pandas(df, preserve_index=False)
        except Exception as e:
            return {"skip": "pyarrow table could not be built: " + type(e).__name__}
        head = data.slice(0, max(1, len(df) // 2))
    else:
        data = df
        head = df.iloc[: max(1, len(df) // 2)]
    cls = FormulaMaterializer.for_materializer("pandas" if c["mat"] == "pandas" else "narwhals")

    def call(inst, spec, kw, output):
        try:
            with warnings.catch_warnings():
                warnings.simplefilter("ignore")
                mm = inst.get_model_matrix(spec, **kw)
        except Exception as e:
            return {"error": type(e).__name__, "msg": str(e)[:160]}, None
        return _matrix_obs(mm, output), mm

    shared = cls(data, context=dict(CONTEXT))
    out, prev, prev_formula = [], None, None
    for k in c["calls"]:
        kw = dict(output=k["output"], ensure_full_rank=k["efr"], na_action=k["na"], cluster_by="numerical_factors" if k["cluster"] else "none")
        via = k["via"]
        spec = formula = k["formula"]
        if via == "spec_prev":
            if prev is None:
                via = "formula"  # the previous call produced no matrix: fall back to the formula text
            else:
                spec, kw, formula = prev.model_spec, dict(output=k["output"]), prev_formula
        elif via == "spec_head":
            _, hm = call(cls(head, context=dict(CONTEXT)), k["formula"], kw, k["output"])
            if hm is None:
                via = "formula"
            else:
                spec, kw = hm.model_spec, {}
        fresh, fm = call(cls(data, context=dict(CONTEXT)), spec, kw, k["output"])
        reused, _ = call(shared, spec, kw, k["output"])
        out.append(dict(via=via, formula=formula, fresh=fresh, reused=reused))
        prev, prev_formula = fm, formula
    return {"calls": out}


def oracle_reuse(c, o):
    if "skip" in o:
        return None
    for i, (k, r) in enumerate(zip(c["calls"], o["calls"])):
        what = f"call {i + 1} of {len(c['calls'])} on one {c['mat']} materializer ({r['via']}, {r['formula']!r}, output={k['output']})"
        why = _compare_variants(r, r["fresh"], r["reused"], "a fresh materializer", "the reused materializer")
        if why:
            return f"{what}: {why}"
        for who in ("fresh", "reused"):
            v = r[who]
            if "shown" in v and v["shown"] != v["names"]:
                return f"{what}: the {who} frame shows columns {v['shown']} but the attached spec names {v['names']}"
    return None


# ----------------------------------------------------------------------------- stream `sparseops`


def gen_col(rng, n, density=0.5):
    return [fstr(0 if rng.random() > density else Fraction(rng.randint(-6, 6), rng.choice([1, 2]))) for _ in range(n)]


def gen_sparse_case(rng):
    n = rng.randint(0, 7)
    r = rng.random()
    if r < 0.35:
        # whole pipeline: terms over source factors
        terms = []
        k = 0
        for _ in range(rng.randint(1, 3)):
            factors = []
            for _ in range(rng.randint(1, 3)):
                k += 1
                if rng.random() < 0.5:
                    factors.append(dict(t="num", name=f"f{k}", vals=gen_col(rng, n, rng.choice([0.3, 0.8, 1.0]))))
                else:
                    pool = rng.choice(LEVEL_POOLS)
                    levels = rng.sample(pool, rng.randint(1, 4))
                    vals = [None if rng.random() < 0.15 else rng.choice(levels + pool[:1]) for _ in range(n)]
                    factors.append(dict(t="cat", name=f"f{k}", vals=vals, levels=levels, reduced=rng.random() < 0.4))
            terms.append(dict(scale=rng.choice(["1", "1", "2", "-3", "1/2", "0"]), factors=factors))
        return dict(kind="sparse", op="pipeline", nrows=n, terms=terms)
    if r < 0.5:
        return dict(kind="sparse", op="mul", a=gen_col(rng, n), b=gen_col(rng, n))
    if r < 0.6:
        return dict(kind="sparse", op="smul", a=gen_col(rng, n), q=rng.choice(["1", "2", "-3", "1/2", "0"]))
    if r < 0.7:
        return dict(kind="sparse", op="ofDense", x=gen_col(rng, n, rng.choice([0.0, 0.5, 1.0])))
    if r < 0.8:
        return dict(kind="sparse", op="hstack", nrows=n, cols=[gen_col(rng, n, rng.choice([0.0, 0.5, 1.0])) for _ in range(rng.randint(1, 4))])
    pool = rng.choice(LEVEL_POOLS)
    vals = [None if rng.random() < 0.15 else rng.choice(pool) for _ in range(n)]
    mode = rng.choice(["none", "levels", "declared"])
    levels = rng.sample(pool, rng.randint(0, 4)) if mode == "levels" else None
    declared = rng.sample(pool, 4) if mode == "declared" else None
    return dict(kind="sparse", op="encode", vals=vals, levels=levels, declared=declared, drop_first=rng.random() < 0.5)


def _csc_cols(m):
    """stored entries per column of a scipy matrix, canonical (sorted indices, explicit zeros kept)"""
    m = m.tocsc(copy=True)
    m.sum_duplicates()
    m.sort_indices()
    out = []
    for j in range(m.shape[1]):
        lo, hi = m.indptr[j], m.indptr[j + 1]
        out.append([[int(i), fstr(Fraction(float(v)))] for i, v in zip(m.indices[lo:hi], m.data[lo:hi])])
    return out


def _dense_cols(arr):
    arr = numpy.asarray(arr, dtype=float)
    return [[fstr(Fraction(float(v))) for v in arr[:, j]] for j in range(arr.shape[1])]


def _arr(col):
    return numpy.array([float(Fraction(v)) for v in col], dtype=float)


class _Spec:
    def __init__(self, output):
        self.output = output


def impl_sparse(c):
    import scipy.sparse as sp
    from formulaic.materializers import PandasMaterializer
    from formulaic.utils.sparse import categorical_encode_series_to_sparse_csc_matrix

    op = c["op"]
    try:
        if op == "mul":
            a, b = (sp.csc_matrix(_arr(c[k]).reshape((-1, 1))) for k in ("a", "b"))
            r = sp.csc_matrix.multiply(a, b)
            return dict(entries=_csc_cols(sp.csc_matrix(r))[0], dense=_dense_cols(r.toarray())[0],
                        numpy=[fstr(Fraction(float(v))) for v in numpy.multiply(_arr(c["a"]), _arr(c["b"]))])
        if op == "smul":
            a = sp.csc_matrix(_arr(c["a"]).reshape((-1, 1)))
            r = float(Fraction(c["q"])) * a
            return dict(entries=_csc_cols(r)[0], dense=_dense_cols(r.toarray())[0],
                        numpy=[fstr(Fraction(float(v))) for v in float(Fraction(c["q"])) * _arr(c["a"])])
        if op == "ofDense":
            r = sp.csc_matrix(_arr(c["x"]).reshape((-1, 1)))
            return dict(entries=_csc_cols(r)[0], dense=_dense_cols(r.toarray())[0])
        if op == "hstack":
            cols = [sp.csc_matrix(_arr(x).reshape((-1, 1))) for x in c["cols"]]
            r = sp.hstack(cols).tocsc()
            r.sort_indices()
            return dict(indptr=[int(v) for v in r.indptr], indices=[int(v) for v in r.indices],
                        data=[fstr(Fraction(float(v))) for v in r.data], dense=_dense_cols(r.toarray()),
                        numpy=_dense_cols(numpy.stack([_arr(x) for x in c["cols"]], axis=1)))
        if op == "encode":
            series = pandas.Categorical(c["vals"], categories=c["declared"]) if c["declared"] is not None else pandas.Series(c["vals"], dtype=object)
            levels, m = categorical_encode_series_to_sparse_csc_matrix(series, levels=c["levels"], drop_first=c["drop_first"])
            # the dense twin: get_dummies over the same categories
            cats = pandas.Categorical(c["vals"], categories=list(levels))
            dummies = pandas.get_dummies(pandas.Series(cats)).to_numpy(dtype=float).reshape((len(c["vals"]), len(levels)))
            return dict(levels=[str(x) for x in levels], cols=_csc_cols(m), dense=_dense_cols(m.toarray()), numpy=_dense_cols(dummies))
        if op == "pipeline":
            n = c["nrows"]
            out = {}
            for output in ("sparse", "numpy"):
                mzr = PandasMaterializer(pandas.DataFrame({"i": range(n)}))
                cols = []
                for t in c["terms"]:
                    factors = []
                    for f in t["factors"]:
                        if f["t"] == "num":
                            enc = mzr._encode_numerical(_arr(f["vals"]), None, {}, _Spec(output), [])
                            factors.append({f["name"]: enc})
                        else:
                            # as the materializers do: encode at full rank, then delete the first level's entry
                            lv = f["levels"]
                            if output == "sparse":
                                levels, m = categorical_encode_series_to_sparse_csc_matrix(pandas.Series(f["vals"], dtype=object), levels=lv)
                                enc = {lvl: m[:, j] for j, lvl in enumerate(levels)}
                            else:
                                cats = pandas.Categorical(f["vals"], categories=lv)
                                d = pandas.get_dummies(pandas.Series(cats)).to_numpy(dtype=float).reshape((n, len(lv)))
                                enc = {lvl: d[:, j] for j, lvl in enumerate(lv)}
                            if f["reduced"] and lv:
                                del enc[lv[0]]
                            fmt = "{name}[T.{field}]" if f["reduced"] else "{name}[{field}]"
                            factors.append({fmt.format(name=f["name"], field=k): v for k, v in enc.items()})
                    cols += list(mzr._get_columns_for_term(factors, _Spec(output), scale=float(Fraction(t["scale"]))).items())
                combined = mzr._combine_columns(cols, _Spec(output), [])
                names = [k for k, _ in cols]
                if output == "sparse":
                    combined = sp.csc_matrix(combined)
                    out["sparse"] = dict(names=names, cols=_csc_cols(combined), dense=_dense_cols(combined.toarray()))
                else:
                    out["dense"] = dict(names=names, cols=_dense_cols(numpy.asarray(combined).reshape((n, len(cols)))))
            return out
    except Exception as e:
        return {"error": type(e).__name__, "msg": str(e)[:200]}
    raise ValueError(op)


def _entries_of(col):
    return [[i, v] for i, v in enumerate(col) if Fraction(v) != 0]


def sparse_request(c, o):
    op = c["op"]
    sc = lambda col: dict(nrows=len(col), entries=_entries_of(col))
    if op == "pipeline":
        return dict(op="sparse", nrows=c["nrows"], terms=c["terms"])
    if op == "mul":
        return dict(op="sparseop", which="mul", a=sc(c["a"]), b=sc(c["b"]))
    if op == "smul":
        return dict(op="sparseop", which="smul", a=sc(c["a"]), q=c["q"])
    if op == "ofDense":
        return dict(op="sparseop", which="ofDense", x=c["x"])
    if op == "hstack":
        return dict(op="sparseop", which="hstack", nrows=c["nrows"], cols=[sc(x) for x in c["cols"]])
    return dict(op="sparseop", which="encode", vals=c["vals"], levels=c["levels"], declared=c["declared"], drop_first=c["drop_first"])


def _nz(entries):
    return [[int(i), fstr(Fraction(v))] for i, v in entries if Fraction(v) != 0]


def _feq(a, b):
    return [Fraction(x) for x in a] == [Fraction(x) for x in b]


def agree_sparse(c, o, m):
    op = c["op"]
    if "error" in o:
        if op == "pipeline" and "error" in (m.get("sparse") or {}) and "error" in (m.get("dense") or {}):
            return None
        return f"implementation raised {o['error']}: {o.get('msg')}"
    if op in ("mul", "smul", "ofDense"):
        # scipy prunes nothing on scalar scaling but may prune zero products: compare the non-zero stored entries and the dense values
        if _nz(o["entries"]) != _nz(m["entries"]):
            return f"stored entries differ: impl {o['entries']} vs model {m['entries']}"
        if not _feq(o["dense"], m["dense"]):
            return f"dense values differ: impl {o['dense']} vs model {m['dense']}"
        return None
    if op == "hstack":
        for k in ("indptr", "indices"):
            if o[k] != m[k]:
                return f"{k} differs: impl {o[k]} vs model {m[k]}"
        if not _feq(o["data"], m["data"]):
            return f"data differs: impl {o['data']} vs model {m['data']}"
        if len(o["dense"]) != len(m["dense"]) or not all(_feq(a, b) for a, b in zip(o["dense"], m["dense"])):
            return "dense values differ"
        return None
    if op == "encode":
        if o["levels"] != m["levels"]:
            return f"levels differ: impl {o['levels']} vs model {m['levels']}"
        mc = [_nz(x["entries"]) for x in m["cols"]]
        if [_nz(x) for x in o["cols"]] != mc:
            return f"coordinates differ: impl {o['cols']} vs model {mc}"
        if len(o["dense"]) != len(m["dense"]) or not all(_feq(a, b) for a, b in zip(o["dense"], m["dense"])):
            return "dense values differ"
        return None
    # pipeline
    ms, md = m["sparse"], m["dense"]
    if "error" in ms or "error" in md:
        return f"model raised {ms.get('error') or md.get('error')}, implementation did not"
    if o["sparse"]["names"] != ms["names"] or o["dense"]["names"] != md["names"]:
        return f"names differ: impl {o['sparse']['names']} / {o['dense']['names']} vs model {ms['names']} / {md['names']}"
    if len(o["sparse"]["dense"]) != len(ms["dense"]) or not all(_feq(a, b) for a, b in zip(o["sparse"]["dense"], ms["dense"])):
        return f"sparse output values differ: impl {o['sparse']['dense']} vs model {ms['dense']}"
    if len(o["dense"]["cols"]) != len(md["cols"]) or not all(_feq(a, b) for a, b in zip(o["dense"]["cols"], md["cols"])):
        return f"numpy output values differ: impl {o['dense']['cols']} vs model {md['cols']}"
    # stored structure of the model's CSC (explicit zeros aside) against scipy's
    cols, pos = [], 0
    for j in range(len(ms["indptr"]) - 1):
        lo, hi = ms["indptr"][j], ms["indptr"][j + 1]
        cols.append(_nz(zip(ms["indices"][lo:hi], ms["data"][lo:hi])))
    if [_nz(x) for x in o["sparse"]["cols"]] != cols:
        return f"stored entries differ: impl {o['sparse']['cols']} vs model {cols}"
    return None


def oracle_sparse(c, o):
    """property: the sparse result holds the same numbers as the dense one"""
    if "error" in o:
        return None if c["op"] == "pipeline" and any(not t["factors"] for t in c["terms"]) else f"sparse operation raised {o['error']}: {o.get('msg')}"
    op = c["op"]
    if op in ("mul", "smul"):
        return None if _feq(o["dense"], o["numpy"]) else f"sparse {op} gives {o['dense']}, numpy gives {o['numpy']}"
    if op == "ofDense":
        return None if _feq(o["dense"], c["x"]) else f"csc_matrix(dense).toarray() is {o['dense']}, dense is {c['x']}"
    if op in ("hstack", "encode"):
        same = len(o["dense"]) == len(o["numpy"]) and all(_feq(a, b) for a, b in zip(o["dense"], o["numpy"]))
        return None if same else f"sparse {op} gives {o['dense']}, the dense twin gives {o['numpy']}"
    s, d = o["sparse"], o["dense"]
    if s["names"] != d["names"]:
        return f"column names differ between sparse and numpy output: {s['names']} vs {d['names']}"
    same = len(s["dense"]) == len(d["cols"]) and all(_feq(a, b) for a, b in zip(s["dense"], d["cols"]))
    return None if same else f"sparse output {s['dense']} differs from numpy output {d['cols']}"


# ----------------------------------------------------------------------------- interface


def cases(rng, tier):
    n_out = {"quick": 110, "thorough": 1200, "search": 60}[tier]
    n_entry = {"quick": 260, "thorough": 3000, "search": 80}[tier]
    n_sparse = {"quick": 500, "thorough": 6000, "search": 100}[tier]
    n_reuse = {"quick": 70, "thorough": 800, "search": 60}[tier]
    for _ in range(n_out):
        yield gen_outputs_case(rng, tier)
    for _ in range(n_reuse):
        yield gen_reuse_case(rng, tier)
    for _ in range(n_entry):
        yield gen_entry_case(rng)
    for _ in range(n_sparse):
        yield gen_sparse_case(rng)


def describe(c):
    k = c["kind"]
    if k == "outputs":
        return f"outputs,na={c['na']},extra={'/'.join(c['extra'])}"
    if k == "entry":
        return f"entry,{c['spec']['t']},ov={len(c['overrides'])},{c['data']}"
    if k == "reuse":
        return f"reuse,{c['mat']},calls={len(c['calls'])}"
    return f"sparse,{c['op']}"


def nontrivial(c):
    k = c["kind"]
    if k == "outputs":
        return ":" in c["formula"] or any(n in c["cols"] for n in ("A", "B"))
    if k == "entry":
        return c["spec"]["t"] in ("sformula", "mspecs") or bool(c["overrides"])
    if k == "reuse":
        key = lambda q: (q["formula"], q["output"], q["efr"], q["na"], q["via"])
        return len({key(q) for q in c["calls"]}) >= 2
    return c["op"] == "pipeline" and any(len(t["factors"]) >= 2 for t in c["terms"]) or c["op"] in ("mul", "encode")


def impl(c):
    k = c["kind"]
    if k == "outputs":
        return impl_outputs(c)
    if k == "entry":
        return impl_entry(c)
    if k == "reuse":
        return impl_reuse(c)
    return impl_sparse(c)


def request(c, o):
    if "harness_exception" in o or "skip" in o:
        return dict(op="noop")
    k = c["kind"]
    if k == "reuse":
        return dict(op="noop")  # no model: the stream compares the implementation with itself (fresh vs reused instance)
    if k == "outputs":
        return outputs_request(c, o)
    if k == "entry":
        return entry_request(c, o)
    return sparse_request(c, o)


def agree(c, o, m):
    if "driver_error" in m:
        return "driver: " + m["driver_error"][:300]
    if "harness_exception" in o:
        return None
    if "error" in m and len(m) == 1:
        return "engine: " + str(m["error"])
    k = c["kind"]
    if k == "reuse":
        return None
    if k == "outputs":
        return agree_outputs(c, o, m)
    if k == "entry":
        return agree_entry(c, o, m)
    return agree_sparse(c, o, m)


def oracle(c, o):
    if "harness_exception" in o:
        return "harness could not run the implementation: " + o["harness_exception"]
    k = c["kind"]
    if k == "outputs":
        return oracle_outputs(c, o)
    if k == "entry":
        return oracle_entry(c, o)
    if k == "reuse":
        return oracle_reuse(c, o)
    return oracle_sparse(c, o)


def classify(c, o, why):
    return None


LEVEL_TEXT = (
    "Proof: Lean theorems (Props/C05.lean). For ALL columns and sizes the sparse column operations the sparse output path "
    "uses (csc_matrix(dense), multiply, scalar scaling, the sparse dummy encoder with optional drop_first, hstack into CSC "
    "arrays) denote the dense operations, and therefore the whole sparse pipeline (`_encode_*` -> `_get_columns_for_term` "
    "fast path -> per-term dictionaries -> hstack), written once generically in the column representation, equals the numpy "
    "pipeline column for column and name for name. For ALL call records every pair of entry points (top-level function, "
    "formula method, model-spec method with/without overrides, ModelSpecs joint/non-joint, materializer method) hands the same "
    "request to FormulaMaterializer.get_model_matrix (same class, data, context layering, prepared spec options), with the "
    "exact `drop_rows` forwarding stated separately. The kind tables of the materializers (generated) agree for every dtype "
    "(decided on every run). The models are tied to the code by differential correspondence on every run; the agreement of "
    "whole matrices across outputs, entry points (formula-based, and spec-based on a spec that already has structure), "
    "materializer/input combinations and fresh vs reused materializer instances is checked on the real code."
)
LEVEL_NOTE = (
    "Trusted: Lean kernel + propext/Classical.choice/Quot.sound; hand models of sparse.py / the fast column path / the "
    "entry-point plumbing validated by correspondence; scipy/numpy/narwhals/pyarrow are observed (partial: library "
    "conversions are not proved); for_data and frame capture are parameters / not modelled."
)
