"""C05 — Output types, entry points and materializers agree with one another.

Tie between model and source
* `Gen.kindTable` (regenerated on every run from the live `_is_categorical` of the pandas materializer, the
  narwhals materializer on a pandas frame and on a pyarrow table): `Props.C05.kind_tables_agree` is decided over it.
* stream `outputs`: a formula/data generator (text, categorical, numeric, bool columns of several dtypes, nulls,
  interactions, `C(...)` with contrasts, a transform from the context mapping, literal scalings, Python factors whose
  value is a scalar (`{7}`, `x.max()`, `len(x)`, `I(1)`, `np.float32(2.5)`, a context function returning a float) or a
  plain list (`{[..]}`, `sorted(x)`, `list(x)`) — alone, scaled and in interactions) x
  {pandas, numpy, sparse} x {pandas materializer, narwhals on the pandas frame, narwhals on the pyarrow table}
  x {top-level function, formula method, model-spec method with/without overrides, materializer method}
  x null policies. All variants of one case must produce the same value matrix and the same
  `model_spec.column_names` (oracle: pairwise equality of the implementation's own outputs); the plumbing model
  (`Model/EntryPoints.lean`) is tied by wrapping `FormulaMaterializer.get_model_matrix` / `_prepare_model_specs`
  at run time and comparing the recorded request with the model's `requestVia`.
  The model-spec entry points are ALSO exercised on a spec that already has structure — the spec attached to the matrix
  of one variant: `mm.model_spec.get_model_matrix(data)`, `model_matrix(mm.model_spec, data)`, `model_matrix(mm, data)`,
  `Materializer(data).get_model_matrix(mm.model_spec)`, and `mm.model_spec.get_model_matrix(data', materializer=, output=)`
  under another materializer/input/output combination. Same formula, data and options: they join the same pairwise
  comparison, and their recorded requests are compared with `requestVia` on the corresponding ModelSpec call record.
* stream `reuse`: ONE materializer instance answers 2-4 `get_model_matrix` calls in a row (other formulas, output types,
  ensure_full_rank, null policies, clustering; the formula text, the spec of the previous call's matrix, or a spec
  trained on the first rows only); every call must give the matrix a fresh instance gives for the same call (oracle:
  equality of the implementation's own outputs; no model).
* stream `entry`: random call records (formula / structured formula / ModelSpec / ModelSpecs with assorted
  materializer settings, overrides incl. invalid ones, context mapping or none, a drop_rows set or none, data the
  registry knows or not) through every applicable entry point against `requestVia`.
* stream `registry`: `__register_implementation__`, `for_materializer`, `for_data` on the live registry and on registries
  extended (or replaced) by 0-4 random extra materializer classes, against `Model/Registry.lean`; oracle: the class returned
  accepts the input and offers the output, explicit registrations first, highest precedence, an error only when no class does.
* stream `relabel`: a spec trained on one frame is materialised, through every spec-based entry point, output type and
  materializer, on rows whose pandas labels are not 0..n-1; oracle: every variant equals the matrix of the same rows under
  fresh labels, pandas outputs carry the kept rows' labels by position (no model).
* stream `perspec`: a ModelSpecs whose parts cannot share a materializer (different materializers / constructor params), on
  data whose parts have nulls on DIFFERENT rows, for every output type and with / without a caller's drop set: the parts
  from `ModelSpecs.get_model_matrix` (per-spec branch), `model_matrix(specs, data)`, the method with overrides and ONE
  pandas / narwhals materializer's `get_model_matrix(specs)` (joint) must hold the same numbers, names and rows, equal to
  each part's formula alone on the data without the rows to be dropped; the caller's set ends up as exactly those rows (no model).
* stream `wrapper`: copy / deepcopy / pickle of a ModelMatrix of each output type and the leaf checks of ModelMatrices /
  ModelSpecs, against `Model/Wrapper.lean`.
* stream `sparseops`: the real `scipy.sparse` operations the sparse path uses (`csc_matrix(dense)`, `.multiply`,
  scalar `*`, `hstack`) and `categorical_encode_series_to_sparse_csc_matrix`, plus the real
  `PandasMaterializer._get_columns_for_term` + `_combine_columns` for output sparse and numpy, against
  `Model/Sparse.lean` (stored entries, CSC arrays and dense values).
"""
from __future__ import annotations

import math
import warnings
from fractions import Fraction

import numpy
import pandas

PROPERTY = "C05"
ENGINE = "c05"
REQUIRED_THEOREMS = [
    "kind_tables_agree",
    "sparse_of_dense",
    "sparse_multiply",
    "sparse_scale",
    "sparse_encode",
    "sparse_hstack",
    "sparse_refines_dense",
    "scalar_factor_is_constant_column",
    "registration_closed_form",
    "for_materializer_spec",
    "for_data_first_candidate",
    "for_data_sound_complete",
    "for_data_priority",
    "for_data_set_order_irrelevant",
    "live_registry_reproduced",
    "declared_inputs_dispatched",
    "wrapper_keeps_spec_and_numbers",
    "containers_spec",
    "model_constants_are_live",
    "entry_points_agree",
    "entry_points_fail_together",
    "drop_rows_forwarding",
    "entry_points_agree_exactly",
    "context_layering",
    "registry_view_faithful",
    "dispatched_class_serves_request",
    "requests_are_consistent",
    "per_spec_generation",
    "same_numbers_any_output_any_entry",
]
TRUSTED = [
    "modelled, not verified: scipy's CSC storage and arithmetic, numpy broadcasting, narwhals' conversions, pyarrow memory "
    "layout — only their observable values (stored entries / dense values) enter the correspondence",
    "`SUPPORTS_INPUT(data)` (narwhals' `is_into_dataframe` / `is_narwhals_dataframe`), `type(data).__module__/__qualname__` and "
    "the iteration order of `set(REGISTERED_NAMES.values())` are parameters of the registry model: the harness reads them off "
    "the live objects per case (the theorems hold for every value of them); the registry itself — classes with their "
    "REGISTER_NAME / INPUTS / OUTPUTS / PRECEDENCE, the two registry dicts, one probe object per kind of data — is the generated "
    "table Gen/Registry.lean, and `for_data(data)` is computed by the model, no longer supplied by the harness",
    "`__register_implementation__` is modelled on what it reads of a class (own/inherited REGISTER_NAME, own REGISTER_INPUTS, "
    "outputs, precedence); Python class creation, InterfaceMeta's conformance checks and `_init` of a materializer (dict / record "
    "array -> DataFrame, narwhals `from_native`) are exercised by the streams but not modelled",
    "frame capture (`context=<int>` of `model_matrix`) is not modelled; formulas, data, context mappings, drop_rows sets and "
    "materializer params are opaque identities in the plumbing model",
    "the whole-matrix agreement of the materializer/input combinations (pandas; narwhals on a pandas frame, a pyarrow table, "
    "a narwhals frame; pandas on a dict / record array) is established by the `outputs` stream (pairwise equality of the "
    "implementation's own outputs) and by `kind_tables_agree`; narwhals/pyarrow conversions are not proved. "
    "`same_numbers_any_output_any_entry` is about the model: what a formula evaluates to on the data (`content`) is a parameter there",
    "reuse of a spec that already has structure (`ScopedTerm.rehydrate`, `_enforce_structure`, recorded encoder state), also on "
    "rows with other pandas labels (stream `relabel`), the numbers of a ModelSpecs generated part by part against the same specs "
    "generated jointly by one materializer (stream `perspec`), and reuse of one materializer instance for several calls, also after a "
    "call that raised (stream `reuse`), are not modelled: these streams compare the real code's matrices with one another "
    "(spec-based vs formula-based entry points; relabelled rows vs the same rows under 0..n-1; reused vs fresh instance); only "
    "the plumbing of the spec-based calls is tied to `requestVia`",
    "the copiers of the wrapper model (`copy.copy` / `copy.deepcopy` / pickle of pandas, numpy, scipy, narwhals objects and of a "
    "ModelSpec) are parameters; `wrapper_keeps_spec_and_numbers` assumes they preserve content, the `wrapper` stream observes it",
]
ASSUMPTIONS = [
    "sparse_refines_dense / same_numbers_any_output_any_entry: every evaluated factor has one value per row (`srcOK`: numpy/scipy "
    "enforce equal shapes) and the levels of a categorical factor are distinct (pandas enforces unique categories)",
    "entry_points_agree compares the requests modulo the `drop_rows` argument (`drop_rows_forwarding` states exactly what the code "
    "does; `entry_points_agree_exactly` gives identical requests when both forwarding flags, probed on the live code, are set); "
    "ModelSpec values in a call are valid (constructed by the library); the materializer-method entry point is compared when the "
    "leaves of a structured spec agree on a materializer",
    "the per-spec branch of ModelSpecs.get_model_matrix (parts that cannot share a materializer): the set it creates when the "
    "caller gave none is an identity of the call record (`Call.freshDrop`, reported as 0 by the recorder: the first set seen that "
    "is neither None nor the caller's; any further one would get another number), and whether the set grows during the first "
    "pass — hence whether the parts are generated twice — is a parameter (`Call.dropGrows`) that the harness derives from the "
    "case (null cell in a column every part uses, and a part that drops nulls); `per_spec_generation` and "
    "`entry_points_agree_exactly` hold for every value of both",
    "declared_inputs_dispatched quantifies over the generated probe table (one object per kind of data the streams use); "
    "for_data_* hold for every registry, data record and set order",
    "the class `for_data` picks is looked up again by its REGISTER_NAME in the plumbing model (`Call.dataMat`): exact for classes "
    "registered under their own name (every class of the live registry, checked by `live_registry_reproduced`)",
    "scalar_factor_is_constant_column / the `.scalar` source of the column model: the scalar is a number (not null: `find_nulls` "
    "rejects a null constant before encoding) and `nrows` is the number of retained rows; a 0-d numpy array as factor value "
    "(`np.array(5.0)`) is rejected by `as_columns` on every route (IndexError) and is not generated",
    "observed differences OUTSIDE the modelled routes (reviewers' demonstrations, not generated, not findings of this check): "
    "(d2) the stateful transform `lag` has no narwhals registration: `x + lag(x)` works under the pandas materializer and raises "
    "FactorEvaluationError [NotImplementedError: no `shift` for narwhals Series] under the narwhals materializer (pandas or "
    "pyarrow input); (d5) columns of a dtype outside the generated kind table — datetime64 / timedelta64 and pandas Sparse / "
    "complex (narwhals `Unknown`) — are numerical for the pandas materializer (datetime then raises UFuncTypeError) and "
    "categorical for the narwhals materializer; (d7) `hashed(s, levels=k)` hashes the backend's text of a null cell (`nan` on "
    "pandas input, `None` on pyarrow input), so a null row lands in different buckets; (d8) a nullable integer column with a null "
    "(`Int64` / arrow int64) becomes float64 in `narwhals_series_to_pandas` on pyarrow input, so `C(k)` names its levels `2.0` "
    "there and `2` on pandas input (numbers equal, names differ). The `outputs` stream uses float64/int64/bool/text columns and "
    "the transforms named in RULE only",
]
RULE = (
    "outputs: frames of 1-6 rows (quick; up to 30 thorough) with 1-2 text/categorical columns (object, str, string[pyarrow], "
    "category with declared order and unused categories), 1-2 numeric columns (float64/int64, dyadic values), a bool column, "
    "nulls in 30% of the cases; formulas of 1-4 terms over names, C(x[, contr.*]), I(), a context function, in 16% of the "
    "numeric atoms a Python factor whose value is a scalar ({7}, {1.5}, {-4}, {True}, I(1), len(x), np.float32(2.5), np.int64(6), "
    "x.max(), x.min(), {x.max() - x.min()}, top(x)) or a list with one number per row ({[..]}, sorted(x), list(x)), interactions up "
    "to degree 3, literal scalings, intercept on/off; x ensure_full_rank x na_action x cluster_by; 9 output/materializer "
    "variants through the top-level function, the same data as dict of columns / dict of scalars (1 row) / record array / "
    "narwhals frame (stable-v1 and main namespace, on pandas and on pyarrow) dispatched by the registry, output='narwhals' on "
    "three inputs, plus the 4 other entry points at one random variant, plus the model-spec entry "
    "points on the spec attached to that variant's matrix (spec method, top-level function on the spec and on the matrix, "
    "materializer method; and the spec method with a random other materializer/input/output as overrides), plus copy / deepcopy "
    "/ pickle of that matrix (and each handed back as a spec) and the two-part formula `1 ~ ...` (ModelMatrices, handed back as a spec). "
    "reuse: frames of "
    "2-6 rows (20 thorough, nulls in 40%), one pandas/narwhals/narwhals-on-arrow materializer instance, 2-4 calls with random "
    "formula (the first one again in half of the calls), output, ensure_full_rank, na_action, cluster_by, given as formula "
    "text / spec of the previous matrix / spec trained on the first half of the rows; 35% of the cases contain a call that raises "
    "while a later term is encoded, followed by a call with another output type (70%: the same valid terms); each call against a fresh instance. "
    "relabel: frames of 3-8 rows (24 thorough), formula of 1-3 terms over A, C(A, levels=perm), C(A, contr.*), A:x, C(A,..):x, A:B, x; "
    "spec trained by a random materializer/output, reused on rows labelled slice/shuffled/reversed/dups/str/disjoint/shifted through "
    "9 materializer x output combinations + 5 entry points at one combination. "
    "entry: random call records (formula / structured formula / ModelSpec / ModelSpecs, 20% with leaves that disagree on output / "
    "na_action / ensure_full_rank, 60% of the ModelSpecs with parts that cannot share a materializer (different constructor params "
    "or names: the per-spec branch), 60% of those on data with a null cell (second pass); materializer given by name, as class, "
    "instance, unregistered class or junk; overrides incl. invalid ones; context mapping or none; a drop_rows set or none; data = "
    "pandas / pyarrow / dict / record array / narwhals stable / narwhals main / a list). registry: one sweep of every probe kind x 6 "
    "outputs on the live registry, then 0-4 random extra classes (own/inherited/empty/duplicate names, 0-3 declared input types, 0-3 "
    "outputs, precedences with ties, SUPPORTS_INPUT sets) on the live or an empty registry and 3-8 for_data / for_materializer queries. "
    "perspec: frames of 5-9 rows (20 thorough) with columns x, z, w (float) and a (text); 2-3 parts reading disjoint columns, "
    "recorded by different materializers and/or constructor params; in 55% of the cases every part has two null rows and no row is "
    "shared between parts, otherwise 0-2 null rows in some parts; na_action drop (80%) / ignore; a caller's drop set in 40%; 30% "
    "with specs trained part by part; 3 outputs x {specs method, top-level function, method with overrides, pandas materializer, "
    "narwhals materializer} + the per-part reference. "
    "wrapper: 0-4 copy/deepcopy/pickle operations on a matrix of each output type, 0-3 leaves offered to ModelMatrices/ModelSpecs. "
    "sparseops: random sparse/dense columns of 0-7 rows, 1-3 factors per term (numeric array 38%, scalar 12% as Python int / float "
    "/ numpy scalar, plain list 8%, categorical 50%), 1-3 terms. "
    "non-trivial = outputs case with an interaction or a categorical column, reuse case with two different calls, entry case "
    "with a structured spec or overrides, registry case with two extra classes or the sweep, every relabel case, wrapper case with "
    "two operations or leaves, sparseops case with at least two factors; distinct by canonical JSON"
)

MATS = ["pandas", "narwhals", "arrow"]
OUTPUTS = ["pandas", "numpy", "sparse"]
ENTRIES = ["sugar", "formula", "spec", "spec_ov", "materializer"]
# entry points on a spec that already has structure (attached to an earlier matrix); the last one changes materializer/output
RESPEC = ["respec_method", "respec_sugar", "respec_matrix", "respec_materializer", "respec_cross"]
INEXACT = ("contr.poly", "contr.diff", "contr.helmert", "contr.sum", "contr.SAS")


def fstr(x) -> str:
    fr = Fraction(x)
    return str(fr.numerator) if fr.denominator == 1 else f"{fr.numerator}/{fr.denominator}"


def cellstr(x) -> str:
    try:
        if math.isnan(x):
            return "nan"
    except TypeError:
        return "obj:" + str(x)
    return fstr(Fraction(float(x)))


def dbl(v):
    return v * 2


def arr1(v):
    """a context function that returns a plain 1-d numpy array"""
    return numpy.asarray(v.to_numpy(), dtype=float)


def arr2(v):
    """... a 2-d numpy array: a numeric factor with two unnamed columns (`as_columns` numbers them)"""
    a = numpy.asarray(v.to_numpy(), dtype=float)
    return numpy.column_stack([a, a * a])


def arr3(v):
    """... a 3-d numpy array, which no materializer can turn into columns (ValueError in `as_columns`)"""
    return numpy.asarray(v.to_numpy(), dtype=float).reshape((-1, 1, 1))


def top(v):
    """a context function that returns a plain Python float: the largest non-null value of the column"""
    return float(max(x for x in v.to_list() if x is not None and x == x))


CONTEXT = {"dbl": dbl, "arr1": arr1, "arr2": arr2, "arr3": arr3, "top": top, "np": numpy}

# ----------------------------------------------------------------------------- recording


class Recorder:
    """wraps FormulaMaterializer.get_model_matrix/_prepare_model_specs while active and records every request"""

    def __init__(self, world):
        self.world = world  # dict: data, context, drop, formula_ids
        self.records = []

    def __enter__(self):
        from formulaic import ModelSpec
        from formulaic.materializers import FormulaMaterializer

        self.cls = FormulaMaterializer
        self.orig_gmm = FormulaMaterializer.get_model_matrix
        self.orig_prep = FormulaMaterializer._prepare_model_specs
        rec = self

        def gmm(self, spec, drop_rows=None, **overrides):
            entry = {"self": self, "drop": drop_rows, "prepared": None, "simplify": None}
            rec.records.append(entry)
            self._verif_entry = entry
            return rec.orig_gmm(self, spec, drop_rows=drop_rows, **overrides)

        def prep(self, spec):
            out = rec.orig_prep(self, spec)
            e = getattr(self, "_verif_entry", None)
            if e is not None:
                e["prepared"] = out
                e["simplify"] = isinstance(spec, ModelSpec)
            return out

        self.orig_init = FormulaMaterializer.__init__

        def init(self, data, context=None, **params):
            # `_init` of the pandas materializer replaces a dict / record array by the frame it builds from it:
            # remember the object the constructor was GIVEN
            self._verif_init_data = data
            return rec.orig_init(self, data, context=context, **params)

        FormulaMaterializer.__init__ = init
        FormulaMaterializer.get_model_matrix = gmm
        FormulaMaterializer._prepare_model_specs = prep
        return self

    def __exit__(self, *a):
        self.cls.__init__ = self.orig_init
        self.cls.get_model_matrix = self.orig_gmm
        self.cls._prepare_model_specs = self.orig_prep

    def canonical(self):
        w = self.world
        out = []
        others = []  # drop sets that are neither None nor the caller's, in the order they were first seen

        def drop_id(d):
            """None -> None; the caller's set -> 1; a set the library created itself -> 0 (a second such set -2, ...)"""
            if d is None:
                return None
            if d is w["drop"]:
                return 1
            for i, o in enumerate(others):
                if o is d:
                    return 0 if i == 0 else -1 - i
            others.append(d)
            return 0 if len(others) == 1 else -len(others)

        for e in self.records:
            m = e["self"]
            if e["prepared"] is None:
                out.append({"unprepared": True, "mat": type(m).REGISTER_NAME})
                continue
            leaves = list(e["prepared"]._flatten())
            out.append(
                dict(
                    mat=type(m).REGISTER_NAME,
                    data=0 if getattr(m, "_verif_init_data", m.data) is w["data"] else -1,
                    context=None if not m.context else (1 if m.context is w["context"] else -1),
                    layers=[getattr(l, "name", None) for l in m.layered_context._layers],
                    params=w["params_id"](m.params),
                    specs=[dict(k=str(i), ms=ms_json(ms, w)) for i, ms in enumerate(leaves)],
                    simplify=bool(e["simplify"]),
                    dropRows=drop_id(e["drop"]),
                )
            )
        return out


def ms_json(ms, w):
    return dict(
        formula=w["formula_id"](ms.formula),
        materializer=ms.materializer,
        params=w["params_id"](ms.materializer_params),
        efr=bool(ms.ensure_full_rank),
        na=ms.na_action.value,
        output=ms.output,
        cluster=ms.cluster_by.value,
    )


# ----------------------------------------------------------------------------- stream `entry`

FORMULAS = ["x", "x + a", "a:x - 1", "y ~ z:x", "w ~ x + a + z", "x + z"]  # id = index; "y ~ …" are structured
PARAMS = [None, {"p": 1}, {"q": 2}]  # materializer params by id (0: none/empty)


def gen_ms(rng, allow_struct=False):
    return dict(
        formula=rng.choice([0, 1, 2, 5]),
        materializer=rng.choice([None, None, "pandas", "narwhals"]),
        params=rng.choice([0, 0, 0, 1]),
        efr=rng.random() < 0.7,
        na=rng.choice(["drop", "drop", "raise", "ignore"]),
        output=rng.choice([None, None, "pandas", "numpy", "sparse"]),
        cluster=rng.choice(["none", "none", "numerical_factors"]),
    )


def gen_overrides(rng, malformed):
    ov = []
    if rng.random() < 0.45:
        m = rng.choice(["pandas", "narwhals", None] + (["nope"] if malformed else []))
        r = rng.random()
        if malformed and r < 0.3:
            m = dict(t="other", name=None)  # neither a name nor a materializer
        elif r < 0.06:
            m = dict(t="cls", name=None)  # a materializer class that does not register itself (REGISTER_NAME None)
        elif m in ("pandas", "narwhals") and r < 0.4:
            m = dict(t=rng.choice(["cls", "inst"]), name=m)  # the class itself / an instance of it
        ov.append(["materializer", m])
    if rng.random() < 0.4:
        ov.append(["ensure_full_rank", rng.random() < 0.5])
    if rng.random() < 0.4:
        ov.append(["na_action", rng.choice(["drop", "raise", "ignore"] + (["bogus"] if malformed else []))])
    if rng.random() < 0.5:
        ov.append(["output", rng.choice(["pandas", "numpy", "sparse", "narwhals", None] + (["nope"] if malformed else []))])
    if rng.random() < 0.3:
        ov.append(["cluster_by", rng.choice(["none", "numerical_factors"] + (["zzz"] if malformed else []))])
    if rng.random() < 0.15:
        ov.append(["materializer_params", rng.choice([1, 2])])
    if malformed and rng.random() < 0.4:
        ov.append(["bogus_option", 1])
    rng.shuffle(ov)
    return ov


def gen_entry_case(rng):
    malformed = rng.random() < 0.25
    r = rng.random()
    if r < 0.35:
        spec = dict(t="formula", f=rng.choice([0, 1, 2, 5]))
    elif r < 0.5:
        spec = dict(t="sformula", f=rng.choice([3, 4]))
    elif r < 0.8:
        spec = dict(t="mspec", ms=gen_ms(rng))
    else:
        a, b = gen_ms(rng), gen_ms(rng)
        if rng.random() < 0.5:  # make the leaves agree more often
            b["materializer"] = rng.choice([a["materializer"], None])
            b["params"] = a["params"]
        if rng.random() < 0.8:
            # leaves that are materialised jointly must agree on these; the rest of the cases leaves them as drawn:
            # RuntimeError from every entry point on the joint path, one request per leaf otherwise
            for leaf in (a, b):
                leaf["efr"], leaf["na"], leaf["output"] = a["efr"], a["na"], a["output"]
        spec = dict(t="mspecs", parts=[a, b])
    data = rng.choice(DATA_KINDS + ["pandas"] * 3 + ["arrow"] + (["unsupported"] * 3 if malformed else []))
    ov = gen_overrides(rng, malformed)
    if data != "pandas":
        # a materializer cannot be built on every kind of data (pandas: not on a pyarrow table or a narwhals frame; narwhals:
        # not on a dict or a record array; none on a list): keep the materialisation itself feasible
        only = {"arrow": "narwhals", "nwstable": "narwhals", "nwmain": "narwhals", "dict": "pandas", "recarray": "pandas"}.get(data)
        fixname = lambda m: (only if m in ("pandas", "narwhals") else m) if only else (None if m in ("pandas", "narwhals") else m)
        fix = lambda m: dict(m, name=fixname(m["name"])) if isinstance(m, dict) else fixname(m)
        ov = [[k, fix(v)] if k == "materializer" else [k, v] for k, v in ov]
        for leaf in ([spec["ms"]] if spec["t"] == "mspec" else spec.get("parts", []) if spec["t"] == "mspecs" else []):
            leaf["materializer"] = fix(leaf["materializer"])
    nulls = False
    if spec["t"] == "mspecs" and rng.random() < 0.6:
        # the PER-SPEC branch of ModelSpecs.get_model_matrix: two parts recorded with different constructor params (or
        # different materializers) cannot share a materializer, but share one drop set; with a null cell in a column
        # every part uses and a drop policy somewhere, that set grows during the first pass and the parts are generated twice
        a, b = spec["parts"]
        name = {"pandas": rng.choice(["pandas", "narwhals"]), "unsupported": None}.get(data, a["materializer"] or b["materializer"]
                                                                                         or {"dict": "pandas", "recarray": "pandas"}.get(data, "narwhals"))
        if name is not None:
            a["materializer"], b["materializer"] = name, name
            a["params"], b["params"] = rng.choice([(1, 0), (0, 1), (1, 1)])
            if a["params"] == b["params"] and data == "pandas":
                b["materializer"] = "narwhals" if name == "pandas" else "pandas"
        nulls = rng.random() < 0.6
    if nulls:
        # the materialisation itself is not modelled: keep it from raising on the null
        unraise = lambda v: "drop" if v == "raise" else v
        for leaf in spec["parts"]:
            leaf["na"] = unraise(leaf["na"])
        ov = [[k, unraise(v)] if k == "na_action" else [k, v] for k, v in ov]
    return dict(kind="entry", spec=spec, data=data, context=rng.random() < 0.5, drop=rng.random() < 0.5, overrides=ov, nulls=nulls)


DATA_KINDS = ["pandas", "arrow", "dict", "recarray", "nwstable", "nwmain"]
_UNREGISTERED = []


def _unregistered_class():
    """a working materializer class that does not register itself (`REGISTER_NAME = None`)"""
    if not _UNREGISTERED:
        from formulaic.materializers import PandasMaterializer

        _UNREGISTERED.append(type(PandasMaterializer)("UnregisteredMaterializer", (PandasMaterializer,), {"REGISTER_NAME": None}))
    return _UNREGISTERED[0]


def _mat_object(m):
    """the Python value of a `materializer=` entry of a case"""
    if not isinstance(m, dict):
        return m
    from formulaic.materializers import FormulaMaterializer

    if m["t"] == "other":
        return 42
    cls = FormulaMaterializer.REGISTERED_NAMES[m["name"]] if m["name"] is not None else _unregistered_class()
    return cls if m["t"] == "cls" else cls(pandas.DataFrame({"q": [1.0]}))


def _ov_kwargs(ov):
    kw = {}
    for k, v in ov:
        if k == "materializer_params":
            v = PARAMS[v]
        elif k == "materializer":
            v = _mat_object(v)
        kw[k] = v
    return kw


def _probe_facts(data):
    """what `for_data` reads of the data: type module / qualname, and which registered classes' SUPPORTS_INPUT accept it"""
    from harness import translate

    t = type(data)
    supported = []
    for i, cl in enumerate(translate.registry_classes()):
        try:
            if cl.SUPPORTS_INPUT(data):
                supported.append(i)
        except Exception:
            pass
    return dict(module=t.__module__, qualname=t.__qualname__, supportedBy=supported)


def _world(c):
    import pyarrow

    df = pandas.DataFrame({"y": [1.0, 2.0, 4.0], "w": [0.0, 1.0, 1.0], "x": [0.5, 1.0, -2.0], "z": [3.0, 1.0, 2.0], "a": pandas.Categorical(["u", "v", "u"])})
    if c.get("nulls"):
        df.loc[1, "x"] = numpy.nan  # every formula of FORMULAS that a ModelSpec leaf can carry uses `x`
    kind = c["data"]
    if kind == "pandas":
        data = df
    elif kind == "arrow":
        data = pyarrow.Table.from_pandas(df, preserve_index=False)
    elif kind == "dict":
        data = {k: list(df[k]) for k in df.columns}
    elif kind == "recarray":
        data = df.astype({"a": object}).to_records(index=False)
    elif kind in ("nwstable", "nwmain"):
        import narwhals
        import narwhals.stable.v1 as nw

        data = (nw if kind == "nwstable" else narwhals).from_native(df, eager_only=True)
    else:
        data = [1, 2, 3]
    from formulaic import Formula
    from formulaic.formula import StructuredFormula

    printed = {}
    for i, f in enumerate(FORMULAS):
        F = Formula(f)
        if isinstance(F, StructuredFormula):
            for j, part in enumerate(F._flatten()):
                printed[str(part)] = 100 + 10 * i + j
        else:
            printed[str(F)] = i

    def formula_id(F):
        return printed.get(str(F), -1)

    def params_id(p):
        if not p:
            return None
        for i, q in enumerate(PARAMS):
            if q == p:
                return i
        return -1

    return dict(data=data, context=dict(CONTEXT) if c["context"] else None, drop=set() if c["drop"] else None,
                formula_id=formula_id, params_id=params_id)


def _make_ms(d):
    from formulaic import Formula, ModelSpec

    return ModelSpec(formula=Formula(FORMULAS[d["formula"]]), materializer=d["materializer"], materializer_params=PARAMS[d["params"]],
                     ensure_full_rank=d["efr"], na_action=d["na"], output=d["output"], cluster_by=d["cluster"])


def _spec_object(spec):
    from formulaic import Formula, ModelSpecs

    if spec["t"] in ("formula", "sformula"):
        return FORMULAS[spec["f"]]
    if spec["t"] == "mspec":
        return _make_ms(spec["ms"])
    return ModelSpecs(lhs=_make_ms(spec["parts"][0]), rhs=_make_ms(spec["parts"][1]))


def _data_mat(data):
    from formulaic.materializers import FormulaMaterializer

    try:
        return FormulaMaterializer.for_data(data).REGISTER_NAME
    except Exception:
        return None


def _joint(leaves):
    """the `for ... else` of ModelSpecs.get_model_matrix on (materializer, params) pairs -> (materializer, params) | None"""
    m, p = None, None
    for lm, lp in leaves:
        if not lm:
            continue
        if m not in (None, lm) or p not in (None, lp):
            return None
        m, p = lm, (lp or None)
    return (m, p)


def _effective(spec_obj, kw):
    """(materializer, params) of the effective spec `ModelSpec.from_spec(spec, **ov)`; None: the leaves disagree"""
    from formulaic import ModelSpec

    eff = ModelSpec.from_spec(spec_obj, **kw)
    if isinstance(eff, ModelSpec):
        return (eff.materializer, eff.materializer_params)
    return _joint([(ms.materializer, ms.materializer_params) for ms in eff._flatten()])


def _result_shapes(res):
    """[rows, columns] of the matrix, or of every part of a structured result (in part order)"""
    shape = lambda m: [int(x) for x in m.shape]
    try:
        if hasattr(res, "_flatten"):
            return [shape(m) for m in res._flatten()]
        return [shape(res)]
    except Exception as e:
        return "unreadable: " + type(e).__name__


class NotApplicable(Exception):
    pass


def run_entry(c, entry, w, spec_obj):
    """returns ({'error': cls} | {'requests': [...]}, result)"""
    from formulaic import Formula, ModelSpec, model_matrix

    kw = _ov_kwargs(c["overrides"])
    data, ctx, d = w["data"], w["context"], w["drop"]
    res = None
    with Recorder(w) as rec:
        try:
            with warnings.catch_warnings():
                warnings.simplefilter("ignore")
                if entry == "sugar":
                    res = model_matrix(spec_obj, data, context=ctx if ctx is not None else {}, drop_rows=d, **kw)
                elif entry == "formula":
                    res = Formula(spec_obj).get_model_matrix(data, context=ctx, drop_rows=d, **kw)
                elif entry == "spec":
                    res = ModelSpec.from_spec(spec_obj, **kw).get_model_matrix(data, context=ctx, drop_rows=d)
                elif entry == "spec_ov":
                    res = ModelSpec.from_spec(spec_obj).get_model_matrix(data, context=ctx, drop_rows=d, **kw)
                elif entry == "materializer":
                    from formulaic.materializers import FormulaMaterializer

                    eff = _effective(spec_obj, kw)
                    if eff is None:
                        raise NotApplicable()
                    cls = FormulaMaterializer.for_data(data) if eff[0] is None else FormulaMaterializer.for_materializer(eff[0])
                    res = cls(data, context=ctx, **(eff[1] or {})).get_model_matrix(spec_obj, drop_rows=d, **kw)
        except NotApplicable:
            return {"n/a": True}, None
        except Exception as e:
            return {"error": type(e).__name__, "msg": str(e)[:160], "partial": rec.canonical()}, None
        return {"requests": rec.canonical(), "shapes": _result_shapes(res)}, res


def applicable(c, entry):
    if entry == "formula":
        return c["spec"]["t"] in ("formula", "sformula")
    return True


def impl_entry(c):
    w = _world(c)
    out = {"dataMat": _data_mat(w["data"]), "probe": _probe_facts(w["data"]), "entries": {}}
    for e in ENTRIES:
        if not applicable(c, e):
            continue
        spec_obj = _spec_object(c["spec"])  # fresh objects per entry: materialisation mutates state dicts
        w2 = dict(w, drop=set() if c["drop"] else None)
        r, _ = run_entry(c, e, w2, spec_obj)
        if "n/a" not in r:
            out["entries"][e] = r
    named = [[k, v["name"]] if k == "materializer" and isinstance(v, dict) and v["t"] in ("cls", "inst") and v["name"] else [k, v]
             for k, v in c["overrides"]]
    if named != c["overrides"]:
        # the same call with the materializer class / instance replaced by the NAME it is registered under
        c2 = dict(c, overrides=named)
        out["by_name"] = {}
        for e in ENTRIES:
            if applicable(c2, e):
                r, _ = run_entry(c2, e, dict(w, drop=set() if c["drop"] else None), _spec_object(c["spec"]))
                if "n/a" not in r:
                    out["by_name"][e] = r
    return out


def ms_request(d):
    return dict(formula=d["formula"], materializer=d["materializer"], params=d["params"] or None, efr=d["efr"], na=d["na"],
                output=d["output"], cluster=d["cluster"])


def entry_request(c, o):
    sp = c["spec"]
    if sp["t"] == "formula":
        spec = dict(t="formula", f=sp["f"])
    elif sp["t"] == "sformula":
        spec = dict(t="sformula", parts=[dict(k=str(j), f=100 + 10 * sp["f"] + j) for j in range(2)])
    elif sp["t"] == "mspec":
        spec = dict(t="mspec", ms=ms_request(sp["ms"]))
    else:
        spec = dict(t="mspecs", parts=[dict(k=str(j), ms=ms_request(p)) for j, p in enumerate(sp["parts"])])
    return dict(
        op="entry",
        call=dict(spec=spec, data=0, probe=o["probe"], context=1 if c["context"] else None,
                  dropRows=1 if c["drop"] else None, overrides=[dict(k=k, v=v) for k, v in c["overrides"]],
                  dropGrows=_drop_grows(c)),
    )


def _drop_grows(c):
    """PARAMETER of the plumbing model: does generating the parts of a ModelSpecs one by one add rows to the (initially
    empty) drop set? Yes iff the data has the null cell (in `x`, which every leaf formula uses) and some part drops nulls
    (its own `na_action`, or the one the overrides give to all parts)"""
    if not c.get("nulls") or c["spec"]["t"] != "mspecs":
        return False
    forced = [v for k, v in c["overrides"] if k == "na_action"]
    return any((forced[-1] if forced else leaf["na"]) == "drop" for leaf in c["spec"]["parts"])


def _norm_requests(rs):
    """model and impl name the leaves of a structured spec by position"""
    out = []
    for r in rs:
        r = dict(r)
        r["specs"] = [dict(k=str(i), ms=s["ms"]) for i, s in enumerate(r["specs"])]
        out.append(r)
    return out


def agree_entry(c, o, m):
    if o["dataMat"] != m.get("dataMat"):
        return f"for_data(data) picks {o['dataMat']!r}, the registry model {m.get('dataMat')!r}"
    for e, got in o["entries"].items():
        want = m.get(e)
        if want is None:
            return f"model has no answer for entry point {e}"
        if "error" in got or "error" in want:
            if "error" in got and "error" in want:
                if got["error"] != want["error"]:
                    return f"entry point {e}: impl raised {got['error']} ({got.get('msg')}), model {want['error']}"
                continue
            return f"entry point {e}: impl {got.get('error', 'ok')} ({got.get('msg', '')}) vs model {want.get('error', 'ok')}"
        a, b = _norm_requests(got["requests"]), _norm_requests(want["requests"])
        if a != b:
            for x, y in zip(a, b):
                if x != y:
                    diff = {k: (x.get(k), y.get(k)) for k in set(x) | set(y) if x.get(k) != y.get(k)}
                    return f"entry point {e}: recorded request differs from the model's (impl, model): {diff}"
            return f"entry point {e}: {len(a)} request(s) recorded, model has {len(b)}"
    return None


def _erase_drop(rs):
    return [dict(r, dropRows=None) for r in rs]


def oracle_entry(c, o):
    """property: every pair of entry points hands the same request to the materializer (drop_rows aside)"""
    ok = {e: r for e, r in o["entries"].items() if "requests" in r}
    bad = {e: r for e, r in o["entries"].items() if "error" in r}
    names = sorted(ok)
    for i in range(len(names)):
        for j in range(i + 1, len(names)):
            a, b = _erase_drop(ok[names[i]]["requests"]), _erase_drop(ok[names[j]]["requests"])
            if a != b:
                return f"entry points {names[i]} and {names[j]} hand different requests to the materializer: {a} vs {b}"
            sa, sb = ok[names[i]].get("shapes"), ok[names[j]].get("shapes")
            if sa != sb:
                return f"entry points {names[i]} and {names[j]} return matrices of different shapes: {sa} vs {sb}"
    for e, twin in (o.get("by_name") or {}).items():
        got = o["entries"].get(e)
        if got is None:
            continue
        if ("requests" in got) != ("requests" in twin):
            f, g = (got, twin) if "error" in got else (twin, got)
            return (f"entry point {e}: naming the materializer by its class/instance and by its registered name differ: one call fails "
                    f"with {f['error']} ({f.get('msg', '')}), the other produces a matrix")
        if "requests" in got and _erase_drop(got["requests"]) != _erase_drop(twin["requests"]):
            return f"entry point {e}: materializer given as class/instance vs by name hand different requests on: {got['requests']} vs {twin['requests']}"
    if ok and bad:
        # the top-level function additionally resolves a materializer for the bare data before looking at the spec
        others_bad = {e: r for e, r in bad.items() if e != "sugar"}
        if others_bad and any(e != "sugar" for e in ok):
            return f"entry points {sorted(ok)} succeed but {sorted(others_bad)} fail with {[r['error'] for r in others_bad.values()]}"
        if "sugar" in bad and o["dataMat"] is not None:
            return f"model_matrix() fails with {bad['sugar']['error']} although {sorted(ok)} succeed"
    return None


# ----------------------------------------------------------------------------- stream `outputs`

LEVEL_POOLS = [["a", "b", "c", "d"], ["u", "v", "w", "z"], ["lo", "mid", "hi", "top"], ["B", "a", "Z", "é"]]
CAT_DTYPES = ["object", "str", "category", "string[pyarrow]"]
CONTRASTS = ["treatment", "sum", "helmert", "SAS", "diff", "poly"]


def gen_frame(rng, nrows, nulls):
    cols = {}
    for name in ["A", "B"][: rng.randint(1, 2)]:
        pool = rng.choice(LEVEL_POOLS)
        k = rng.randint(1, 4)
        levels = rng.sample(pool, k)
        dtype = rng.choice(CAT_DTYPES)
        used = levels if rng.random() < 0.7 else levels[: max(1, k - 1)]
        vals = [rng.choice(used) for _ in range(nrows)]
        if nulls and rng.random() < 0.5:
            vals = [None if rng.random() < 0.2 else v for v in vals]
        cols[name] = dict(dtype=dtype, levels=levels, vals=vals)
    for name in ["x", "y"][: rng.randint(1, 2)]:
        dtype = rng.choice(["float64", "float64", "int64"])
        if dtype == "int64":
            vals = [fstr(rng.randint(-4, 6)) for _ in range(nrows)]
        else:
            vals = [fstr(Fraction(rng.randint(-12, 12), rng.choice([1, 2, 4]))) for _ in range(nrows)]
            if nulls and rng.random() < 0.5:
                vals = [None if rng.random() < 0.2 else v for v in vals]
        cols[name] = dict(dtype=dtype, vals=vals)
    if rng.random() < 0.4:
        cols["t"] = dict(dtype="bool", vals=[rng.random() < 0.5 for _ in range(nrows)])
    return cols


def build_frame(cols):
    out = {}
    for name, c in cols.items():
        dt = c["dtype"]
        if dt == "category":
            out[name] = pandas.Categorical(c["vals"], categories=c["levels"])
        elif dt in ("object", "str", "string[pyarrow]"):
            out[name] = pandas.Series(c["vals"], dtype=object if dt == "object" else dt)
        elif dt == "bool":
            out[name] = pandas.Series(c["vals"], dtype=bool)
        elif dt == "int64":
            out[name] = pandas.Series([int(Fraction(v)) for v in c["vals"]], dtype="int64")
        else:
            out[name] = pandas.Series([numpy.nan if v is None else float(Fraction(v)) for v in c["vals"]], dtype="float64")
    return pandas.DataFrame(out)


def gen_atom(rng, cols):
    cats = [n for n in cols if n in ("A", "B")]
    nums = [n for n in cols if n in ("x", "y")]
    r = rng.random()
    if cats and r < 0.45:
        v = rng.choice(cats)
        q = rng.random()
        if q < 0.55:
            return v
        if q < 0.7:
            return f"C({v})"
        return f"C({v}, contr.{rng.choice(CONTRASTS)})"
    if "t" in cols and r < 0.55:
        return "t"
    v = rng.choice(nums)
    w = rng.choice(nums)
    if rng.random() < 0.16:
        return gen_const_atom(rng, cols, v)
    if rng.random() < 0.18:
        return rng.choice([f"arr2({v})", f"arr2({v})", f"arr1({w})", f"arr2({v})" if rng.random() < 0.8 else f"arr3({v})"])
    return rng.choice([v, v, f"I({v} + 1)", f"dbl({v})", f"I({v} * {w})", f"{{{v} - {w}}}"])


def gen_const_atom(rng, cols, v):
    """a Python factor whose VALUE is not a column of the data: a scalar (Python int / float, numpy scalar — a NUMERICAL
    factor that stands for a column holding it in every row) or a plain list with one number per row. The literals avoid
    2, 0.5 and 3 (the scalings of `gen_formula`: a factor is identified by its text, `{3}` and `3` would be one factor)."""
    vals = cols[v]["vals"]
    nrows = len(vals)
    full = all(x is not None for x in vals)
    some = any(x is not None for x in vals)
    pool = ["{7}", "{1.5}", "{-4}", "I(1)", f"len({v})", "np.float32(2.5)", "np.int64(6)", "{True}"]
    if some:
        # an aggregate of the column: numpy scalar (pandas), Python scalar (narwhals); nulls are skipped on every route
        pool += [f"{v}.max()", f"{v}.min()", f"{{{v}.max() - {v}.min()}}", f"top({v})"]
    lit = ", ".join(str(float(Fraction(rng.randint(-8, 8), rng.choice([1, 2, 4])))) if rng.random() < 0.6 else str(rng.randint(-5, 5))
                    for _ in range(nrows))
    pool += [f"{{[{lit}]}}", f"{{[{lit}]}}"]
    if full:
        # lists computed from the column (without nulls: `sorted` over NaN / None is not an order)
        pool += [f"sorted({v})", f"list({v})"]
    return rng.choice(pool)


def gen_formula(rng, cols):
    terms, seen = [], set()
    for _ in range(rng.randint(1, 4)):
        atoms = []
        for _ in range(rng.choice([1, 1, 2, 2, 3])):
            a = gen_atom(rng, cols)
            if a not in atoms:
                atoms.append(a)
        if frozenset(atoms) in seen:
            continue
        seen.add(frozenset(atoms))
        if rng.random() < 0.2:
            atoms.insert(rng.randrange(len(atoms) + 1), rng.choice(["2", "0.5", "3"]))
        terms.append(":".join(atoms))
    return rng.choice(["", "", "0 + ", "-1 + "]) + " + ".join(terms)


def gen_outputs_case(rng, tier):
    nrows = rng.randint(1, 6 if tier != "thorough" else 30)
    nulls = rng.random() < 0.3
    cols = gen_frame(rng, nrows, nulls)
    return dict(
        kind="outputs",
        cols=cols,
        formula=gen_formula(rng, cols),
        efr=rng.random() < 0.6,
        na=rng.choice(["drop", "drop", "drop", "raise", "ignore"]) if nulls else "drop",
        cluster=rng.random() < 0.25,
        extra=[rng.choice(MATS), rng.choice(OUTPUTS)],
        ctx=True,
        # the model-spec entry points on a spec that ALREADY has structure (the one attached to the matrix of variant
        # `sugar|extra`), and once more under another materializer/input/output combination
        respec=[rng.choice(MATS), rng.choice(OUTPUTS)],
        more_outputs=[rng.choice(OUTPUTS) for _ in range(3)],
        wrap=True,
    )


def _matrix_obs(mm, output):
    names = [str(n) for n in mm.model_spec.column_names]
    if output == "narwhals":
        import narwhals.stable.v1 as nw

        frame = nw.from_native(mm.__wrapped__, eager_only=True)
        arr = frame.to_numpy() if frame.shape[1] else numpy.empty((frame.shape[0], 0))
    elif hasattr(mm, "toarray"):
        arr = mm.toarray()
    else:
        arr = numpy.asarray(mm)
    arr = numpy.asarray(arr)
    if arr.ndim != 2:
        return dict(names=names, rows=[], shape=list(arr.shape))
    vals = [[cellstr(x) for x in row] for row in arr.tolist()]
    out = dict(names=names, rows=vals, shape=[int(arr.shape[0]), int(arr.shape[1])])
    if output == "pandas":
        out["shown"] = [str(x) for x in mm.columns]
    return out


def impl_outputs(c):
    import pyarrow
    from formulaic import Formula, ModelSpec, model_matrix
    from formulaic.materializers import FormulaMaterializer

    df = build_frame(c["cols"])
    try:
        table = pyarrow.Table.from_pandas(df, preserve_index=False)
    except Exception as e:
        return {"skip": "pyarrow table could not be built: " + type(e).__name__}
    opts = dict(ensure_full_rank=c["efr"], na_action=c["na"], cluster_by="numerical_factors" if c["cluster"] else "none")
    variants = {}
    dummy = dict(data=None, context=None, drop=None, formula_id=lambda F: 0, params_id=lambda p: None if not p else 1)

    built = {}

    def run(entry, mat, output, src=None):
        data = table if mat == "arrow" else df
        kw = dict(opts, output=output)
        if mat == "narwhals":
            kw["materializer"] = "narwhals"
        elif mat == "pandas":
            kw["materializer"] = "pandas"
        ctx = dict(CONTEXT)
        w = dict(dummy, data=data, context=ctx)
        with Recorder(w) as rec:
            try:
                with warnings.catch_warnings():
                    warnings.simplefilter("ignore")
                    if entry == "respec_method":
                        mm = src.model_spec.get_model_matrix(data, context=ctx)
                    elif entry == "respec_sugar":
                        mm = model_matrix(src.model_spec, data, context=ctx)
                    elif entry == "respec_matrix":
                        mm = model_matrix(src, data, context=ctx)
                    elif entry == "respec_materializer":
                        cls = FormulaMaterializer.for_materializer(src.model_spec.materializer)
                        mm = cls(data, context=ctx).get_model_matrix(src.model_spec)
                    elif entry == "respec_cross":
                        # the spec's options stay; only the materializer/input and the output type change
                        mm = src.model_spec.get_model_matrix(data, context=ctx, output=output, materializer="pandas" if mat == "pandas" else "narwhals")
                    elif entry == "sugar":
                        mm = model_matrix(c["formula"], data, context=ctx, **kw)
                    elif entry == "formula":
                        mm = Formula(c["formula"]).get_model_matrix(data, context=ctx, **kw)
                    elif entry == "spec":
                        mm = ModelSpec.from_spec(Formula(c["formula"]), **kw).get_model_matrix(data, context=ctx)
                    elif entry == "spec_ov":
                        mm = ModelSpec.from_spec(Formula(c["formula"])).get_model_matrix(data, context=ctx, **kw)
                    else:
                        cls = FormulaMaterializer.for_materializer(kw["materializer"]) if "materializer" in kw else FormulaMaterializer.for_data(data)
                        mm = cls(data, context=ctx).get_model_matrix(c["formula"], **kw)
            except Exception as e:
                return {"error": type(e).__name__, "msg": str(e)[:160]}
            obs = _matrix_obs(mm, output)
            obs["requests"] = rec.canonical()
            obs["dataMat"] = None
            built[(entry, mat, output)] = mm
            return obs

    for mat in MATS:
        for output in OUTPUTS:
            variants[f"sugar|{mat}|{output}"] = run("sugar", mat, output)
    for key, fn in _more_inputs(c, df, table, opts).items():
        # the other input types the registry dispatches (dict, record array, narwhals frames) and the narwhals output
        try:
            with warnings.catch_warnings():
                warnings.simplefilter("ignore")
                mm = fn()
            obs = _matrix_obs(mm, key.split("|")[2])
            if key.split("|")[2] == "narwhals":
                obs["native"] = type(mm.__wrapped__).__module__ + "." + type(mm.__wrapped__).__qualname__
            variants[key] = obs
        except Exception as e:
            variants[key] = {"error": type(e).__name__, "msg": str(e)[:160]}
    mat, output = c["extra"]
    for entry in ENTRIES[1:]:
        variants[f"{entry}|{mat}|{output}"] = run(entry, mat, output)
    src = built.get(("sugar", mat, output))
    if c.get("respec") and src is not None:
        # same formula, data and options, handed over as the spec the first materialisation produced
        for entry in RESPEC[:-1]:
            variants[f"{entry}|{mat}|{output}"] = run(entry, mat, output, src)
        mat2, output2 = c["respec"]
        variants[f"respec_cross|{mat2}|{output2}"] = run("respec_cross", mat2, output2, src)
    if c.get("wrap") and src is not None:
        # the ModelMatrix wrapper: copies and a pickle round trip still carry the spec (names) and the numbers, and
        # are accepted wherever a spec is; ModelMatrices of a two-part formula carries a ModelSpecs of the same shape
        import copy
        import pickle

        for how, fn in (("copy", copy.copy), ("deepcopy", copy.deepcopy), ("pickle", lambda m: pickle.loads(pickle.dumps(m)))):
            try:
                twin = fn(src)
                obs = _matrix_obs(twin, output)
                obs["is_matrix"] = type(twin).__name__
                obs["same_spec_object"] = twin.model_spec is src.model_spec
                variants[f"wrap_{how}|{mat}|{output}"] = obs
                variants[f"respec_{how}|{mat}|{output}"] = run("respec_matrix", mat, output, twin)
            except Exception as e:
                variants[f"wrap_{how}|{mat}|{output}"] = {"error": type(e).__name__, "msg": str(e)[:160]}
        data = table if mat == "arrow" else df
        kw = dict(opts, output=output, materializer="pandas" if mat == "pandas" else "narwhals")
        try:
            recs = {}
            with warnings.catch_warnings():
                warnings.simplefilter("ignore")
                ctx1, ctx2 = dict(CONTEXT), dict(CONTEXT)
                with Recorder(dict(dummy, data=data, context=ctx1)) as rec:
                    mms = model_matrix("1 ~ " + c["formula"], data, context=ctx1, **kw)
                    recs["structured"] = rec.canonical()
                with Recorder(dict(dummy, data=data, context=ctx2)) as rec:
                    again = model_matrix(mms, data, context=ctx2)
                    recs["structured_again"] = rec.canonical()
            keys = lambda st: [str(k) for k in st._to_dict()] if hasattr(st, "_to_dict") else None
            for label, st in (("structured", mms), ("structured_again", again)):
                obs = _matrix_obs(st.rhs, output)
                obs["requests"] = recs[label]
                obs["container"] = type(st).__name__
                obs["spec_container"] = type(st.model_spec).__name__
                obs["keys"] = [keys(st), keys(st.model_spec)]
                obs["lhs_names"] = [str(n) for n in st.lhs.model_spec.column_names]
                variants[f"{label}|{mat}|{output}"] = obs
        except Exception as e:
            variants[f"structured|{mat}|{output}"] = {"error": type(e).__name__, "msg": str(e)[:160]}
    return {"variants": variants, "dataMat": {"pandas": _data_mat(df), "arrow": _data_mat(table)},
            "probe": {"pandas": _probe_facts(df), "arrow": _probe_facts(table)}}


def _more_inputs(c, df, table, opts):
    """{variant key: thunk}: the same data handed over as a dict of columns, a record array, a narwhals frame (stable API
    and main namespace, on the pandas frame and on the pyarrow table) — dispatched by the registry, no materializer
    nominated — and the narwhals output of the narwhals materializer"""
    import narwhals
    import narwhals.stable.v1 as nw
    from formulaic import model_matrix

    out = {}
    o1, o2, o3 = c.get("more_outputs") or ["numpy", "pandas", "sparse"]
    call = lambda data, **kw: (lambda: model_matrix(c["formula"], data, context=dict(CONTEXT), **dict(opts, **kw)))
    out[f"dict|pandas|{o1}"] = call({k: df[k] for k in df.columns}, output=o1)
    if len(df) == 1 and all(v["dtype"] in ("object", "str", "float64", "int64", "bool") for v in c["cols"].values()) and not df.isna().any().any():
        # one row given as a dict of scalars (the dtypes a scalar can carry; a null scalar carries none)
        out[f"scalars|pandas|{o1}"] = call({k: df[k].iloc[0] for k in df.columns}, output=o1)
    if all(v["dtype"] in ("object", "float64", "int64", "bool") for v in c["cols"].values()):
        out[f"recarray|pandas|{o2}"] = call(df.to_records(index=False), output=o2)
    out[f"nwstable|narwhals|{o2}"] = call(nw.from_native(df, eager_only=True), output=o2)
    out[f"nwmain|narwhals|{o3}"] = call(narwhals.from_native(df, eager_only=True), output=o3)
    out[f"nwarrow|narwhals|{o1}"] = call(nw.from_native(table, eager_only=True), output=o1)
    out["sugar_nwout|narwhals|narwhals"] = call(df, output="narwhals", materializer="narwhals")
    out["sugar_nwout|arrow|narwhals"] = call(table, output="narwhals")
    out["nwstable_nwout|narwhals|narwhals"] = call(nw.from_native(df, eager_only=True), output="narwhals")
    return out


def _respec_plan(c, o):
    """[(variant key, model entry point, index into the follow-up calls)] + the follow-up call records themselves:
    the spec attached to variant `sugar|extra` (formula 0 with the options and materializer it was built with)
    handed to the model-spec entry points, without overrides and with a materializer/output override"""
    if not c.get("respec"):
        return [], []
    mat, output = c["extra"]
    mat2, output2 = c["respec"]
    name = lambda m: o["dataMat"]["arrow"] if m == "arrow" else m
    ms = dict(formula=0, materializer=name(mat), params=None, efr=c["efr"], na=c["na"], output=output,
              cluster="numerical_factors" if c["cluster"] else "none")
    call = lambda m, ov: dict(spec=dict(t="mspec", ms=ms), data=0, probe=o["probe"]["arrow" if m == "arrow" else "pandas"],
                              context=1, dropRows=None, overrides=[dict(k=k, v=v) for k, v in ov])
    plan = [(f"respec_method|{mat}|{output}", "spec", 0), (f"respec_sugar|{mat}|{output}", "sugar", 0),
            (f"respec_matrix|{mat}|{output}", "sugar", 0), (f"respec_materializer|{mat}|{output}", "materializer", 0),
            (f"respec_cross|{mat2}|{output2}", "spec_ov", 1)]
    calls = [call(mat, []), call(mat2, [["output", output2], ["materializer", "pandas" if mat2 == "pandas" else "narwhals"]])]
    if c.get("wrap"):
        plan += [(f"respec_{how}|{mat}|{output}", "sugar", 0) for how in ("copy", "deepcopy", "pickle")]
        # the two-part formula through the top-level function (one joint request, two leaves), and the ModelMatrices it
        # returns handed back as the spec (a ModelSpecs of two prepared leaves)
        probe = o["probe"]["arrow" if mat == "arrow" else "pandas"]
        ov = [["ensure_full_rank", c["efr"]], ["na_action", c["na"]], ["cluster_by", "numerical_factors" if c["cluster"] else "none"],
              ["output", output], ["materializer", "pandas" if mat == "pandas" else "narwhals"]]
        calls.append(dict(spec=dict(t="sformula", parts=[dict(k="0", f=0), dict(k="1", f=0)]), data=0, probe=probe, context=1, dropRows=None,
                          overrides=[dict(k=k, v=v) for k, v in ov]))
        leaf = dict(ms, materializer="pandas" if mat == "pandas" else "narwhals")
        calls.append(dict(spec=dict(t="mspecs", parts=[dict(k="0", ms=leaf), dict(k="1", ms=leaf)]), data=0, probe=probe, context=1,
                          dropRows=None, overrides=[]))
        plan += [(f"structured|{mat}|{output}", "sugar", 2), (f"structured_again|{mat}|{output}", "sugar", 3)]
    return plan, calls


def outputs_request(c, o):
    """the plumbing of every variant, checked by the same model: one `entry` request per (mat, output) actually used"""
    mat, output = c["extra"]
    ov = [["ensure_full_rank", c["efr"]], ["na_action", c["na"]], ["cluster_by", "numerical_factors" if c["cluster"] else "none"],
          ["output", output]]
    if mat != "arrow":
        ov.append(["materializer", mat])
    return dict(op="entry", call=dict(spec=dict(t="formula", f=0), data=0, probe=o["probe"]["arrow" if mat == "arrow" else "pandas"],
                                      context=1, dropRows=None, overrides=[dict(k=k, v=v) for k, v in ov]),
                more=_respec_plan(c, o)[1])


def _values_equal(a, b, inexact):
    if a == b:
        return True
    if "nan" in (a, b) or a.startswith("obj:") or b.startswith("obj:"):
        return False
    if not inexact:
        return Fraction(a) == Fraction(b)
    x, y = float(Fraction(a)), float(Fraction(b))
    return abs(x - y) <= 1e-9 * (1 + abs(y))


def _compare_variants(c, va, vb, na, nb):
    if ("error" in va) != ("error" in vb):
        bad, good = (na, nb) if "error" in va else (nb, na)
        e = va if "error" in va else vb
        return f"variant {bad} fails with {e['error']} ({e.get('msg', '')}) while variant {good} produces a matrix"
    if "error" in va:
        return None
    if va["names"] != vb["names"]:
        return f"column names differ: {na} {va['names']} vs {nb} {vb['names']}"
    if va["shape"] != vb["shape"]:
        # a narwhals/pyarrow frame without columns cannot carry rows: only the column count is comparable there
        if not ((va.get("native") or vb.get("native")) and va["shape"][-1:] == [0] and vb["shape"][-1:] == [0]):
            return f"shapes differ: {na} {va['shape']} vs {nb} {vb['shape']}"
    inexact = any(s in c["formula"] for s in INEXACT)
    for i, (ra, rb) in enumerate(zip(va["rows"], vb["rows"])):
        for j, (x, y) in enumerate(zip(ra, rb)):
            if not _values_equal(x, y, inexact):
                return f"values differ at row {i}, column {va['names'][j]!r}: {na} has {x}, {nb} has {y}"
    return None


def _non_numeric_cell(v):
    """every cell of a model matrix is a number (never an object such as a nested sparse matrix)"""
    if "error" in v:
        return None
    for i, row in enumerate(v["rows"]):
        for j, x in enumerate(row):
            if x.startswith("obj:"):
                return f"cell (row {i}, column {v['names'][j] if j < len(v['names']) else j}) is not a number: {x[:80]}"
    return None


def oracle_outputs(c, o):
    if "skip" in o:
        return None
    vs = o["variants"]
    names = list(vs)
    ref = names[0]
    for n in names:
        v = vs[n]
        why = _non_numeric_cell(v)
        if why:
            return f"variant {n}: {why}"
        if "error" not in v and "shown" in v and v["shown"] != v["names"]:
            # a pandas frame cannot show two columns under one name twice unless the names repeat; compare as lists
            if len(v["shown"]) != len(v["names"]) or v["shown"] != v["names"]:
                return f"variant {n}: the frame shows columns {v['shown']} but the attached spec names {v['names']}"
    for n in names[1:]:
        why = _compare_variants(c, vs[ref], vs[n], ref, n)
        if why:
            return why
    for n, v in vs.items():
        if "error" in v:
            continue
        if n.startswith("wrap_"):
            if v["is_matrix"] != "ModelMatrix":
                return f"{n}: the copy is a {v['is_matrix']}, not a ModelMatrix"
            if n.startswith("wrap_copy") and not v["same_spec_object"]:
                return f"{n}: a shallow copy of a ModelMatrix carries another spec object"
        if n.startswith("structured"):
            if v["container"] != "ModelMatrices" or v["spec_container"] != "ModelSpecs" or v["keys"] != [["lhs", "rhs"], ["lhs", "rhs"]]:
                return f"{n}: a two-part formula gives {v['container']} with spec {v['spec_container']}, keys {v['keys']}"
            if v["lhs_names"] != ["Intercept"]:
                return f"{n}: the left-hand part `1` has columns {v['lhs_names']}"
        if "native" in v:
            want = {"sugar_nwout|narwhals|narwhals": "pandas.", "sugar_nwout|arrow|narwhals": "pyarrow.", "nwstable_nwout|narwhals|narwhals": "narwhals."}[n]
            if not v["native"].startswith(want):
                return f"{n}: output='narwhals' returned a {v['native']} (expected the input's own kind of frame, {want}*)"
    return None


def _agree_requests(label, v, want):
    if want is None or "error" in want:
        return f"{label}: model says {want}, implementation produced a matrix"
    a, b = _norm_requests(v["requests"]), _norm_requests(want["requests"])
    if a != b:
        for x, y in zip(a, b):
            if x != y:
                diff = {k: (x.get(k), y.get(k)) for k in set(x) | set(y) if x.get(k) != y.get(k)}
                return f"{label}: recorded request differs from the model's (impl, model): {diff}"
        return f"{label}: {len(a)} request(s) recorded, model has {len(b)}"
    return None


def agree_outputs(c, o, m):
    if "skip" in o:
        return None
    mat, output = c["extra"]
    for entry in ENTRIES:
        v = o["variants"].get(f"{entry}|{mat}|{output}")
        if v is None or "error" in v:
            continue  # a failing materialisation is the oracle's business
        why = _agree_requests(f"entry point {entry} ({mat}, {output})", v, m.get(entry))
        if why:
            return why
    more = m.get("more") or []
    for key, entry, i in _respec_plan(c, o)[0]:
        v = o["variants"].get(key)
        if v is None or "error" in v:
            continue
        why = _agree_requests(f"entry point {key} (spec with structure)", v, more[i].get(entry) if i < len(more) else None)
        if why:
            return why
    return None


# ----------------------------------------------------------------------------- stream `reuse`
# ONE materializer instance serves several `get_model_matrix` calls in a row. The property's "materializer method" entry
# point is `Materializer(data).get_model_matrix(spec, **options)`: for the same spec, data and options it has to give the
# same matrix whatever the instance was asked before, i.e. the same as a fresh instance.

VIA = ["formula", "formula", "formula", "spec_prev", "spec_head"]


def gen_reuse_case(rng, tier):
    nrows = rng.randint(2, 6 if tier != "thorough" else 20)
    nulls = rng.random() < 0.4
    cols = gen_frame(rng, nrows, nulls)
    calls = []
    first = gen_formula(rng, cols)
    for i in range(rng.randint(2, 4)):
        calls.append(dict(
            formula=first if i == 0 or rng.random() < 0.5 else gen_formula(rng, cols),
            output=rng.choice(OUTPUTS),
            efr=rng.random() < 0.6,
            na=rng.choice(["drop", "drop", "ignore", "raise"]) if nulls else "drop",
            cluster=rng.random() < 0.2,
            # formula: the formula text; spec_prev: the spec a FRESH materializer attached to the previous call's matrix
            # (its options stay, the output type is overridden); spec_head: the spec of this call's formula
            # materialised on the first rows only (other encoder state), then used on the whole data
            via=rng.choice(VIA) if i else rng.choice(["formula", "formula", "spec_head"]),
        ))
    if rng.random() < 0.35:
        # FAULT-THEN-REUSE: one call raises while a LATER term is being encoded (the earlier terms are already evaluated
        # and encoded for that call's output type); the next call on the same object asks for another output type
        i = rng.randrange(len(calls) - 1)
        valid = gen_formula(rng, cols)
        calls[i] = dict(calls[i], formula=valid + f" + C({rng.choice([n for n in cols if n in ('A', 'B')])}, contr.treatment(base='nope'))",
                        via="formula", fault=True)
        calls[i + 1] = dict(calls[i + 1], output=rng.choice([o for o in OUTPUTS if o != calls[i]["output"]]),
                            via="formula" if calls[i + 1]["via"] == "spec_prev" else calls[i + 1]["via"])
        if rng.random() < 0.7:  # the same (valid) terms again: their factors were evaluated and encoded by the failed call
            calls[i + 1]["formula"] = valid
    return dict(kind="reuse", cols=cols, mat=rng.choice(MATS), calls=calls)


def impl_reuse(c):
    import pyarrow
    from formulaic.materializers import FormulaMaterializer

    df = build_frame(c["cols"])
    if c["mat"] == "arrow":
        try:
            data = pyarrow.Table.from_pandas(df, preserve_index=False)
        except Exception as e:
            return {"skip": "pyarrow table could not be built: " + type(e).__name__}
        head = data.slice(0, max(1, len(df) // 2))
    else:
        data = df
        head = df.iloc[: max(1, len(df) // 2)]
    cls = FormulaMaterializer.for_materializer("pandas" if c["mat"] == "pandas" else "narwhals")

    def call(inst, spec, kw, output):
        try:
            with warnings.catch_warnings():
                warnings.simplefilter("ignore")
                mm = inst.get_model_matrix(spec, **kw)
        except Exception as e:
            return {"error": type(e).__name__, "msg": str(e)[:160]}, None
        return _matrix_obs(mm, output), mm

    shared = cls(data, context=dict(CONTEXT))
    out, prev, prev_formula = [], None, None
    for k in c["calls"]:
        kw = dict(output=k["output"], ensure_full_rank=k["efr"], na_action=k["na"], cluster_by="numerical_factors" if k["cluster"] else "none")
        via = k["via"]
        spec = formula = k["formula"]
        if via == "spec_prev":
            if prev is None:
                via = "formula"  # the previous call produced no matrix: fall back to the formula text
            else:
                spec, kw, formula = prev.model_spec, dict(output=k["output"]), prev_formula
        elif via == "spec_head":
            _, hm = call(cls(head, context=dict(CONTEXT)), k["formula"], kw, k["output"])
            if hm is None:
                via = "formula"
            else:
                spec, kw = hm.model_spec, {}
        fresh, fm = call(cls(data, context=dict(CONTEXT)), spec, kw, k["output"])
        reused, _ = call(shared, spec, kw, k["output"])
        out.append(dict(via=via, formula=formula, fresh=fresh, reused=reused))
        prev, prev_formula = fm, formula
    return {"calls": out}


def oracle_reuse(c, o):
    if "skip" in o:
        return None
    for i, (k, r) in enumerate(zip(c["calls"], o["calls"])):
        what = f"call {i + 1} of {len(c['calls'])} on one {c['mat']} materializer ({r['via']}, {r['formula']!r}, output={k['output']})"
        why = _compare_variants(r, r["fresh"], r["reused"], "a fresh materializer", "the reused materializer")
        if why:
            return f"{what}: {why}"
        if k.get("fault") and "error" not in r["fresh"]:
            continue  # the generator's faulty call happened to be valid: an ordinary call
        for who in ("fresh", "reused"):
            why = _non_numeric_cell(r[who])
            if why:
                return f"{what}: the {who} materializer's matrix: {why}"
        for who in ("fresh", "reused"):
            v = r[who]
            if "shown" in v and v["shown"] != v["names"]:
                return f"{what}: the {who} frame shows columns {v['shown']} but the attached spec names {v['names']}"
    return None


# ----------------------------------------------------------------------------- stream `relabel`
# MULTI-STEP HISTORY with a NON-DEFAULT ROW INDEX. A matrix with categorical factors is built on a training frame (default
# labels), its model_spec is taken, and that spec is materialised — through every spec-based entry point, for pandas /
# numpy / sparse output, by the pandas materializer, the narwhals materializer on the pandas frame and on the pyarrow
# table — on rows of the same frame whose pandas row labels are NOT 0..n-1 (a held-out slice, a permutation, duplicated
# labels, string labels, labels disjoint from / shifted against 0..n-1). Property: same formula (spec), data and options
# => same numbers in the same column order. The row labels are not part of the data's content, so every variant must
# ALSO equal the matrix of the same rows under fresh 0..n-1 labels, and a pandas output carries the labels of the rows
# it kept, by POSITION. No model: the implementation is compared with itself.

INDEX_KINDS = ["slice", "shuffled", "dups", "str", "disjoint", "shifted", "reversed"]


def gen_relabel_formula(rng, cols):
    cats = [n for n in cols if n in ("A", "B")]
    nums = [n for n in cols if n in ("x", "y")]

    def cat_atom():
        v = rng.choice(cats)
        q = rng.random()
        if q < 0.4:
            return v
        if q < 0.75:
            lv = list(cols[v]["levels"])
            rng.shuffle(lv)
            return f"C({v}, levels={lv!r})"
        if q < 0.9:
            return f"C({v}, contr.{rng.choice(['treatment', 'sum', 'helmert'])})"
        return f"C({v})"

    terms = []
    for _ in range(rng.randint(1, 3)):
        r = rng.random()
        if r < 0.4:
            t = cat_atom()
        elif r < 0.75:
            t = f"{cat_atom()}:{rng.choice(nums)}"
        elif r < 0.85 and len(cats) > 1:
            t = "A:B"
        else:
            t = rng.choice(nums)
        if t not in terms:
            terms.append(t)
    return rng.choice(["", "", "0 + "]) + " + ".join(terms)


def gen_relabel_case(rng, tier):
    nrows = rng.randint(3, 8 if tier != "thorough" else 24)
    nulls = rng.random() < 0.3
    cols = gen_frame(rng, nrows, nulls)
    kind = rng.choice(INDEX_KINDS)
    perm = list(range(nrows))
    rng.shuffle(perm)
    return dict(kind="relabel", cols=cols, formula=gen_relabel_formula(rng, cols), efr=rng.random() < 0.6,
                na=rng.choice(["drop", "drop", "ignore"]) if nulls else "drop",
                train=[rng.choice(MATS), rng.choice(OUTPUTS)], index=kind, perm=perm,
                extra=[rng.choice(MATS), rng.choice(OUTPUTS)])


def _relabelled(df, kind, perm):
    n = len(df)
    if kind == "slice":
        return df.iloc[1::2] if n > 1 else df
    if kind == "shuffled":
        return df.iloc[perm]
    if kind == "reversed":
        return df.iloc[::-1]
    if kind == "dups":
        return df.set_axis([i // 2 for i in range(n)])
    if kind == "str":
        return df.iloc[perm].set_axis([f"r{i}" for i in perm])
    if kind == "disjoint":
        return df.set_axis([1000 + 7 * i for i in range(n)])
    return df.set_axis([i + 1 for i in range(n)])  # shifted: overlaps 0..n-1, one off


def impl_relabel(c):
    import pyarrow
    from formulaic import model_matrix
    from formulaic.materializers import FormulaMaterializer

    train = build_frame(c["cols"])
    test = _relabelled(train, c["index"], c["perm"])
    plain = test.reset_index(drop=True)
    try:
        tables = {"train": pyarrow.Table.from_pandas(train, preserve_index=False), "test": pyarrow.Table.from_pandas(test, preserve_index=False)}
    except Exception as e:
        return {"skip": "pyarrow table could not be built: " + type(e).__name__}
    name = lambda m: "pandas" if m == "pandas" else "narwhals"
    tm, to = c["train"]
    try:
        with warnings.catch_warnings():
            warnings.simplefilter("ignore")
            mm0 = model_matrix(c["formula"], tables["train"] if tm == "arrow" else train, context=dict(CONTEXT), ensure_full_rank=c["efr"],
                               na_action=c["na"], output=to, materializer=name(tm))
    except Exception as e:
        return {"skip": "training materialisation failed: " + type(e).__name__ + ": " + str(e)[:120]}
    spec = mm0.model_spec
    variants = {}

    def run(key, fn, output, labelled):
        try:
            with warnings.catch_warnings():
                warnings.simplefilter("ignore")
                mm = fn()
        except Exception as e:
            variants[key] = {"error": type(e).__name__, "msg": str(e)[:160]}
            return
        obs = _matrix_obs(mm, output)
        if output == "pandas" and labelled is not None:
            obs["index"] = [str(x) for x in mm.index]
        variants[key] = obs

    ctx = lambda: dict(CONTEXT)
    # the reference: the same rows under fresh labels
    run("plain|pandas|numpy", lambda: spec.get_model_matrix(plain, context=ctx(), output="numpy", materializer="pandas"), "numpy", None)
    for mat in MATS:
        data = tables["test"] if mat == "arrow" else test
        for output in OUTPUTS:
            run(f"spec_ov|{mat}|{output}", lambda: spec.get_model_matrix(data, context=ctx(), output=output, materializer=name(mat)), output,
                None if mat == "arrow" else True)
    mat, output = c["extra"]
    data = tables["test"] if mat == "arrow" else test
    spec2 = spec.update(output=output, materializer=name(mat))
    lab = None if mat == "arrow" else True
    run(f"spec|{mat}|{output}", lambda: spec2.get_model_matrix(data, context=ctx()), output, lab)
    run(f"sugar|{mat}|{output}", lambda: model_matrix(spec2, data, context=ctx()), output, lab)
    run(f"sugar_matrix|{mat}|{output}", lambda: model_matrix(mm0, data, context=ctx(), output=output, materializer=name(mat)), output, lab)
    run(f"materializer|{mat}|{output}", lambda: FormulaMaterializer.for_materializer(name(mat))(data, context=ctx()).get_model_matrix(spec2), output, lab)
    run(f"materializer_ov|{mat}|{output}", lambda: FormulaMaterializer.for_materializer(name(mat))(data, context=ctx()).get_model_matrix(spec, output=output), output, lab)
    # which rows a drop policy keeps: the rows without a null in a column the formula uses
    used = [n for n in c["cols"] if n in c["formula"]]
    keep = [i for i in range(len(test)) if c["na"] != "drop" or not any(pandas.isna(test[n].iloc[i]) for n in used)]
    return {"variants": variants, "labels": [str(test.index[i]) for i in keep], "nrows": len(test)}


def oracle_relabel(c, o):
    if "skip" in o:
        return None
    vs = o["variants"]
    ref_name = "plain|pandas|numpy"
    ref = vs[ref_name]
    for n, v in vs.items():
        why = _non_numeric_cell(v)
        if why:
            return f"spec reused on relabelled rows ({c['index']}), variant {n}: {why}"
        if n != ref_name:
            why = _compare_variants(c, ref, v, "the same rows under labels 0..n-1 (pandas materializer, numpy output)", n)
            if why:
                return f"spec reused on rows labelled {c['index']!r}: {why}"
        if "index" in v and v["index"] != o["labels"]:
            return (f"spec reused on rows labelled {c['index']!r}, variant {n}: the frame's row labels are {v['index']}, the labels of the "
                    f"rows kept (by position) are {o['labels']}")
        if "shown" in v and v["shown"] != v["names"]:
            return f"variant {n}: the frame shows columns {v['shown']} but the attached spec names {v['names']}"
    return None


# ----------------------------------------------------------------------------- stream `perspec`
# NUMBERS of the PER-SPEC branch. A ModelSpecs whose parts cannot share a materializer (lhs recorded by pandas, rhs by
# narwhals, or different constructor params) is generated part by part by `ModelSpecs.get_model_matrix`; the same specs
# handed to a materializer's own `get_model_matrix` are generated jointly by that ONE materializer; `model_matrix(specs,
# data)` and the method with overrides are further entry points. Same formulas, data and options: every part must hold the
# same numbers under the same names with the same rows, whichever way it was asked for — on data whose parts have nulls on
# DIFFERENT rows (the rows one part finds must also leave the parts generated before it), for every output type, with or
# without a caller-supplied drop set. Fresh specs are also compared with each part's formula materialised alone on the data
# with the rows to be dropped already removed. No model: the implementation is compared with itself.

PERSPEC_PARTS = [
    # (columns the part reads, formulas over them)
    (["x"], ["x", "x + I(x * x)", "dbl(x)"]),
    (["z", "a"], ["z + a", "a:z", "C(a) + z", "0 + a + z"]),
    (["w"], ["w", "arr2(w)", "w - 1"]),
]


def gen_perspec_case(rng, tier):
    n = rng.randint(5, 9 if tier != "thorough" else 20)
    nparts = rng.choice([2, 2, 3])
    keys = ["lhs", "rhs", "extra"][:nparts]
    rows = list(range(n))
    rng.shuffle(rows)
    nulls = {}
    if rng.random() < 0.55:
        # at least two null rows in EVERY part, no row shared between parts
        k = max(1, min(2, (n - 1) // nparts))
        for i in range(nparts):
            nulls[i] = sorted(rows[i * k:(i + 1) * k])
    else:
        # nulls only in some parts (possibly overlapping rows, possibly none)
        for i in range(nparts):
            nulls[i] = sorted(rng.sample(range(n), rng.choice([0, 0, 1, 2]))) if rng.random() < 0.5 else []
    cols = {}
    for name in ("x", "z", "w"):
        cols[name] = [fstr(Fraction(rng.randint(-8, 8), rng.choice([1, 2]))) for _ in range(n)]
    cols["a"] = [rng.choice(["u", "v", "t"]) for _ in range(n)]
    for i in range(nparts):
        used = PERSPEC_PARTS[i][0]
        for r in nulls[i]:
            cols[rng.choice(used)][r] = None
    mats = rng.choice([["pandas", "narwhals", "pandas"], ["narwhals", "pandas", "narwhals"], ["pandas", "pandas", "pandas"], ["narwhals", "narwhals", "narwhals"]])
    params = rng.choice([[0, 0, 0], [1, 0, 1], [0, 1, 0]])
    if len(set(mats[:nparts])) == 1 and len(set(params[:nparts])) == 1:
        params = [1, 0, 1]  # otherwise the parts could share a materializer: not the branch under test
    parts = [dict(key=keys[i], formula=rng.choice(PERSPEC_PARTS[i][1]), materializer=mats[i], params=params[i]) for i in range(nparts)]
    return dict(kind="perspec", cols=cols, parts=parts, na=rng.choice(["drop", "drop", "drop", "drop", "ignore"]), efr=rng.random() < 0.7,
                drop=(sorted(rng.sample(range(n), rng.choice([0, 1, 2]))) if rng.random() < 0.4 else None), trained=rng.random() < 0.3)


def impl_perspec(c):
    from formulaic import ModelSpec, ModelSpecs, model_matrix
    from formulaic.materializers import FormulaMaterializer

    df = pandas.DataFrame({k: ([numpy.nan if v is None else float(Fraction(v)) for v in vals] if k != "a" else pandas.Series(vals, dtype=object))
                           for k, vals in c["cols"].items()})
    n = len(df)
    keys = [p["key"] for p in c["parts"]]

    def specs_for(output, with_output=True):
        leaves = {}
        for p in c["parts"]:
            ms = ModelSpec(formula=p["formula"], materializer=p["materializer"], materializer_params=PARAMS[p["params"]],
                           ensure_full_rank=c["efr"], na_action=c["na"], output=output if with_output else None)
            if c["trained"]:
                # the spec a first materialisation of this part ALONE recorded (structure, levels, its own materializer)
                ms = ms.get_model_matrix(df, context=dict(CONTEXT)).model_spec
                ms = ms.update(output=output if with_output else None)
            leaves[p["key"]] = ms
        return ModelSpecs(**leaves)

    def observe(label, output, fn):
        d = None if c["drop"] is None else set(c["drop"])
        try:
            with warnings.catch_warnings():
                warnings.simplefilter("ignore")
                res = fn(d)
        except Exception as e:
            return {"error": type(e).__name__, "msg": str(e)[:160]}
        out = {"parts": {}, "dropset": None if d is None else sorted(int(i) for i in d)}
        for k in keys:
            out["parts"][k] = _matrix_obs(getattr(res, k), output)
        return out

    variants = {}
    for output in OUTPUTS:
        ctx = lambda: dict(CONTEXT)
        variants[f"specs|{output}"] = observe("specs", output, lambda d: specs_for(output).get_model_matrix(df, context=ctx(), drop_rows=d))
        variants[f"sugar|{output}"] = observe("sugar", output, lambda d: model_matrix(specs_for(output), df, context=ctx(), drop_rows=d))
        variants[f"specs_ov|{output}"] = observe("specs_ov", output, lambda d: specs_for(output, False).get_model_matrix(df, context=ctx(), drop_rows=d, output=output))
        for name in ("pandas", "narwhals"):
            # ONE materializer generates all parts jointly
            variants[f"materializer[{name}]|{output}"] = observe(
                "materializer", output, lambda d: FormulaMaterializer.for_materializer(name)(df, context=ctx()).get_model_matrix(specs_for(output), drop_rows=d))
    # the rows that have to go: the caller's, and under the drop policy every row with a null in a column some part reads
    gone = set(c["drop"] or [])
    if c["na"] == "drop":
        for i, p in enumerate(c["parts"]):
            for col in PERSPEC_PARTS[i][0]:
                if col in p["formula"]:
                    gone |= {r for r in range(n) if c["cols"][col][r] is None}
    reference = None
    if not c["trained"]:
        clean = df.drop(index=sorted(gone))
        reference = {}
        for p in c["parts"]:
            try:
                with warnings.catch_warnings():
                    warnings.simplefilter("ignore")
                    mm = model_matrix(p["formula"], clean, context=dict(CONTEXT), output="numpy", na_action="ignore",
                                      ensure_full_rank=c["efr"], materializer="pandas")
                reference[p["key"]] = _matrix_obs(mm, "numpy")
            except Exception as e:
                reference[p["key"]] = {"error": type(e).__name__, "msg": str(e)[:160]}
    return {"variants": variants, "reference": reference, "kept": n - len(gone), "gone": sorted(gone)}


def oracle_perspec(c, o):
    vs = o["variants"]
    names = list(vs)
    what = f"ModelSpecs of {len(c['parts'])} parts recorded by {[(p['materializer'], p['params']) for p in c['parts']]} (na_action={c['na']})"
    failing = [n for n in names if "error" in vs[n]]
    if failing and len(failing) != len(names):
        good = next(n for n in names if "error" not in vs[n])
        e = vs[failing[0]]
        return f"{what}: {failing[0]} fails with {e['error']} ({e.get('msg', '')}) while {good} produces matrices"
    if failing:
        return None
    first = names[0]
    fake = dict(formula=" ".join(p["formula"] for p in c["parts"]))
    for n in names:
        v = vs[n]
        for k, part in v["parts"].items():
            why = _non_numeric_cell(part)
            if why:
                return f"{what}: {n}, part {k}: {why}"
            if part["shape"][0] != o["kept"]:
                return (f"{what}: {n}, part {k} has {part['shape'][0]} rows; {o['kept']} rows remain once the rows {o['gone']} "
                        f"(the caller's and those with a null in a column some part reads) are dropped")
            why = _compare_variants(fake, vs[first]["parts"][k], part, f"{first} part {k}", f"{n} part {k}")
            if why:
                return f"{what}: {why}"
            if o["reference"] is not None and "error" not in o["reference"][k]:
                why = _compare_variants(fake, o["reference"][k], part, f"part {k} alone on the data without the rows {o['gone']}", f"{n} part {k}")
                if why:
                    return f"{what}: {why}"
        if v["dropset"] is not None and v["dropset"] != o["gone"]:
            return f"{what}: {n} leaves the caller's drop set as {v['dropset']}, the rows dropped are {o['gone']}"
    return None


# ----------------------------------------------------------------------------- stream `wrapper`
# The ModelMatrix proxy itself (model_matrix.py): a random sequence of copy.copy / copy.deepcopy / pickle round trips
# applied to a real model matrix of each output type must leave the numbers and the attached spec's column names alone
# (model: Model/Wrapper.lean with copiers that renew the object identity); and random leaves offered to ModelMatrices /
# ModelSpecs (a ModelMatrix, one without spec, a ModelSpec, something else) against `_prepare_item` / `.model_spec`.

WRAP_FORMULAS = ["x + a", "a:x - 1", "x", "a + z"]


def gen_wrapper_case(rng):
    return dict(kind="wrapper", formula=rng.choice(WRAP_FORMULAS), output=rng.choice(OUTPUTS + ["narwhals"]),
                mat=rng.choice(["pandas", "narwhals"]), ops=[rng.choice(["copy", "deepcopy", "pickle"]) for _ in range(rng.randint(0, 4))],
                items=[[k, rng.choice(["matrix", "matrix", "matrix", "matrix_nospec", "spec", "other"])] for k in ["a", "b", "c"][: rng.randint(0, 3)]])


def impl_wrapper(c):
    import copy
    import pickle

    from formulaic import ModelMatrices, ModelMatrix, ModelSpecs, model_matrix

    df = pandas.DataFrame({"x": [0.5, 1.0, -2.0], "z": [3.0, 1.0, 2.0], "a": pandas.Categorical(["u", "v", "u"])})
    output = c["output"] if not (c["mat"] == "pandas" and c["output"] == "narwhals") else "pandas"
    mm0 = model_matrix(c["formula"], df, output=output, materializer=c["mat"])
    before = _matrix_obs(mm0, output)
    mm = mm0
    fns = {"copy": copy.copy, "deepcopy": copy.deepcopy, "pickle": lambda m: pickle.loads(pickle.dumps(m))}
    for op in c["ops"]:
        mm = fns[op](mm)
    after = _matrix_obs(mm, output)
    mk = {"matrix": lambda: mm, "matrix_nospec": lambda: ModelMatrix(numpy.zeros((2, 1))), "spec": lambda: mm0.model_spec, "other": lambda: 5}

    def attempt(fn):
        try:
            r = fn()
            return {"keys": [str(k) for k in r._to_dict()]}
        except TypeError:
            return {"error": "TypeError"}
        except Exception as e:
            return {"error": type(e).__name__, "msg": str(e)[:120]}

    items = {k: mk[v]() for k, v in c["items"]}
    matrices = attempt(lambda: ModelMatrices(**items))
    return dict(
        before=before, names=after["names"], rows=after["rows"], is_matrix=isinstance(mm, ModelMatrix),
        wrapped_type=[type(mm0.__wrapped__).__name__, type(mm.__wrapped__).__name__],
        same_spec_object=mm.model_spec is mm0.model_spec, same_wrapped_object=mm.__wrapped__ is mm0.__wrapped__,
        matrices=matrices, specs=attempt(lambda: ModelSpecs(**items)),
        model_spec=attempt(lambda: ModelMatrices(**items).model_spec) if "keys" in matrices else None,
    )


def wrapper_request(c, o):
    return dict(op="wrapper", ops=c["ops"], names=o["before"]["names"], rows=o["before"]["rows"],
                items=[dict(k=k, v=v) for k, v in c["items"]])


def agree_wrapper(c, o, m):
    for k in ("names", "rows", "same_spec_object", "same_wrapped_object", "matrices", "specs", "model_spec"):
        got, want = o[k], m.get(k)
        if isinstance(got, dict) and "error" in got and isinstance(want, dict) and "error" in want:
            got, want = got["error"], want["error"]
        if got != want:
            return f"{k}: impl {got} vs model {want} after {c['ops']}"
    return None


def oracle_wrapper(c, o):
    """property: the names stay available from the attached spec and the numbers stay the same, whatever the output type"""
    what = f"after {c['ops']} on a {c['output']} matrix"
    if not o["is_matrix"]:
        return f"{what}: the result is not a ModelMatrix"
    if o["wrapped_type"][0] != o["wrapped_type"][1]:
        return f"{what}: the wrapped object changed type: {o['wrapped_type']}"
    if o["names"] != o["before"]["names"]:
        return f"{what}: the attached spec names {o['names']}, before {o['before']['names']}"
    if o["rows"] != o["before"]["rows"]:
        return f"{what}: the numbers changed: {o['rows']} vs {o['before']['rows']}"
    return None


# ----------------------------------------------------------------------------- stream `registry`
# The materializer registry itself: `__register_implementation__` (run for every new FormulaMaterializer subclass),
# `for_materializer`, `for_data`. A case creates 0-4 extra subclasses on top of the live registry (or of an empty one),
# with random own/inherited REGISTER_NAME (duplicates, "", None), REGISTER_INPUTS, REGISTER_OUTPUTS, REGISTER_PRECEDENCE
# (ties) and SUPPORTS_INPUT, then asks `for_data(data, output)` for the probe objects of translate.registry_probes and
# `for_materializer(x)` for names, classes, instances and junk. The registry dicts are swapped for the duration of the
# case and restored afterwards. Model: Model/Registry.lean (registration fold + both lookups); what the model is told
# about a class is READ OFF the live class object (`_class_json`, the twin of translate.lean_mat_class).

REG_NAMES = ["m1", "m2", "m3", "pandas", "narwhals"]
REG_OUTPUTS = ["pandas", "numpy", "sparse", "narwhals", "custom"]
REG_PRECS = ["100", "100", "100", "50", "150", "201/2", "-1"]
BASE_CID = 90


def _probe_objects():
    from harness import translate

    return dict(translate.registry_probes())


def _canonical_type_names(obj):
    """the names under which the type of `obj` can be registered so that `for_data` finds it (property side: a name that
    resolves to the type; builtin types go by their bare name)"""
    t = type(obj)
    out = [f"{t.__module__}.{t.__qualname__}"]
    if t.__module__ == "builtins":
        out.append(t.__qualname__)
    return out


def _input_pool():
    pool = []
    for _, obj in sorted(_probe_objects().items()):
        for n in _canonical_type_names(obj):
            if n not in pool:
                pool.append(n)
    return pool + ["nonexistent.Type"]


def gen_registry_case(rng, sweep=False):
    kinds = sorted(_probe_objects())
    if sweep:
        qs = [dict(q="data", data=k, output=o) for k in kinds for o in [None, "pandas", "numpy", "sparse", "narwhals", "bogus"]]
        qs += [dict(q="mat", t="name", v=v) for v in ["pandas", "narwhals", "nope", ""]]
        qs += [dict(q="mat", t=t, c=c) for t in ("cls", "inst") for c in ("live:0", "live:1")]
        qs += [dict(q="mat", t="cls", c="base")] + [dict(q="mat", t="other", v=v) for v in ("int", "dictclass", "none", "list")]
        return dict(kind="registry", base="live", classes=[], queries=qs)
    pool = _input_pool()
    classes = []
    for i in range(rng.randint(0, 4)):
        a = dict(parent=rng.choice(["base", "base", "base", "pandas"] + list(range(i))))
        r = rng.random()
        if r < 0.75:
            a["name"] = rng.choice(REG_NAMES)
        elif r < 0.85:
            a["name"] = rng.choice(["", None])
        if rng.random() < 0.75:
            a["inputs"] = [rng.choice(pool) for _ in range(rng.randint(0, 3))]
        if rng.random() < 0.8:
            a["outputs"] = rng.sample(REG_OUTPUTS, rng.randint(0, 3))
        if rng.random() < 0.6:
            a["prec"] = rng.choice(REG_PRECS)
        if rng.random() < 0.55:
            a["supports"] = rng.sample(kinds, rng.randint(0, 4))
        classes.append(a)
    qs = []
    for _ in range(rng.randint(3, 8)):
        if rng.random() < 0.7:
            qs.append(dict(q="data", data=rng.choice(kinds), output=rng.choice([None, None] + REG_OUTPUTS + ["bogus"])))
        else:
            r = rng.random()
            if r < 0.4:
                qs.append(dict(q="mat", t="name", v=rng.choice(REG_NAMES + ["nope", ""])))
            elif r < 0.8:
                qs.append(dict(q="mat", t=rng.choice(["cls", "cls", "inst"]), c=rng.choice(["live:0", "live:1", "base"] + list(range(len(classes))))))
            else:
                qs.append(dict(q="mat", t="other", v=rng.choice(["int", "dictclass", "none", "list"])))
    return dict(kind="registry", base=rng.choice(["live", "live", "empty"]), classes=classes, queries=qs)


def _class_json(cid, c):
    """what `__register_implementation__` / the lookups read of a class (twin of translate.lean_mat_class)"""
    own_inputs = c.__dict__.get("REGISTER_INPUTS") if "REGISTER_INPUTS" in c.__dict__ else None
    return dict(cid=cid, name=c.REGISTER_NAME, ownName="REGISTER_NAME" in c.__dict__,
                ownInputs=None if own_inputs is None else [str(t) for t in own_inputs],
                outputs=[str(o) for o in c.REGISTER_OUTPUTS], prec=fstr(Fraction(c.REGISTER_PRECEDENCE)))


def _parse_listed(msg):
    import ast
    import re

    m = re.search(r"are: (\(.*\))\.$", msg, re.S)
    if not m:
        return None
    try:
        return [str(x) for x in ast.literal_eval(m.group(1))]
    except Exception:
        return None


def impl_registry(c):
    from collections import defaultdict

    from interface_meta import override

    from formulaic.materializers import FormulaMaterializer, PandasMaterializer
    from formulaic.materializers.base import FormulaMaterializerMeta as Meta
    from harness import translate

    live = translate.registry_classes()
    objs = _probe_objects()
    kind_of = {id(v): k for k, v in objs.items()}
    saved = (Meta.REGISTERED_NAMES, Meta.REGISTERED_INPUTS)
    try:
        if c["base"] == "empty":
            Meta.REGISTERED_NAMES, Meta.REGISTERED_INPUTS = {}, defaultdict(list)
        else:
            Meta.REGISTERED_NAMES = dict(saved[0])
            Meta.REGISTERED_INPUTS = defaultdict(list, {k: list(v) for k, v in saved[1].items()})
        synth = []
        for i, a in enumerate(c["classes"]):
            parent = FormulaMaterializer if a["parent"] == "base" else PandasMaterializer if a["parent"] == "pandas" else synth[a["parent"]]
            attrs = {}
            if "name" in a:
                attrs["REGISTER_NAME"] = a["name"]
            if "inputs" in a:
                attrs["REGISTER_INPUTS"] = tuple(a["inputs"])
            if "outputs" in a:
                attrs["REGISTER_OUTPUTS"] = tuple(a["outputs"])
            if "prec" in a:
                attrs["REGISTER_PRECEDENCE"] = float(Fraction(a["prec"]))
            if "supports" in a:
                attrs["SUPPORTS_INPUT"] = override(classmethod(_make_supports(kind_of, tuple(a["supports"]))))
            synth.append(type(FormulaMaterializer)(f"Synth{i}", (parent,), attrs))
        cid = {cl: i for i, cl in enumerate(live)}
        cid[FormulaMaterializer] = BASE_CID
        for i, cl in enumerate(synth):
            cid[cl] = 100 + i
        everyone = list(cid)

        def ref(x):
            return FormulaMaterializer if x == "base" else live[int(x[5:])] if isinstance(x, str) else synth[x]

        def supported_by(obj):
            out = []
            for cl in everyone:
                try:
                    if cl.SUPPORTS_INPUT(obj):
                        out.append(cid[cl])
                except Exception:
                    pass
            return out

        def outcome(fn):
            try:
                return {"ok": cid.get(fn(), -1)}
            except Exception as e:
                msg = str(e)
                kind = ("noOutput" if "that also supports output type" in msg else "noInput") if "No materializer is available" in msg else type(e).__name__
                return {"error": type(e).__name__, "kind": kind, "listed": _parse_listed(msg), "msg": msg[:200]}

        answers, facts = [], []
        frame = objs["pandas"]
        for q in c["queries"]:
            if q["q"] == "data":
                obj = objs[q["data"]]
                t = type(obj)
                facts.append(dict(module=t.__module__, qualname=t.__qualname__, supportedBy=supported_by(obj)))
                answers.append(outcome(lambda: FormulaMaterializer.for_data(obj, output=q["output"])))
            else:
                facts.append(None)
                if q["t"] == "name":
                    arg = q["v"]
                elif q["t"] == "cls":
                    arg = ref(q["c"])
                elif q["t"] == "inst":
                    try:
                        arg = ref(q["c"])(frame)
                    except Exception as e:  # abstract class: no instance to ask about
                        answers.append({"skip": type(e).__name__})
                        continue
                else:
                    arg = {"int": 42, "dictclass": dict, "none": None, "list": [PandasMaterializer]}[q["v"]]
                answers.append(outcome(lambda: FormulaMaterializer.for_materializer(arg)))
        return dict(
            classes=[_class_json(i, cl) for cl, i in cid.items()],
            created=[100 + i for i in range(len(synth))],
            names=[[n, cid.get(cl, -1)] for n, cl in Meta.REGISTERED_NAMES.items()],
            inputs=[[t, [cid.get(cl, -1) for cl in lst]] for t, lst in Meta.REGISTERED_INPUTS.items()],
            setOrder=[cid.get(cl, -1) for cl in set(Meta.REGISTERED_NAMES.values())],
            facts=facts, answers=answers,
            # with extra classes (which may displace the shipped ones): declared under a name `for_data` can look up;
            # for the registry as shipped: declared under any name that resolves to the type
            declares={str(i): sorted(k for k, obj in objs.items() if _declares(cl, obj, by_import=not synth)) for cl, i in cid.items()},
        )
    finally:
        Meta.REGISTERED_NAMES, Meta.REGISTERED_INPUTS = saved


def _make_supports(kind_of, kinds):
    def SUPPORTS_INPUT(cls, data):
        return kind_of.get(id(data)) in kinds

    return SUPPORTS_INPUT


def _declares(cl, obj, by_import):
    """property side: does the class list the type of `obj` among its own REGISTER_INPUTS — under its qualified name
    (bare name for builtins), or (`by_import`) under any dotted name that resolves to exactly that type"""
    import pydoc

    t = type(obj)
    for n in cl.__dict__.get("REGISTER_INPUTS", ()):
        if str(n) in _canonical_type_names(obj):
            return True
        if by_import:
            try:
                if pydoc.locate(str(n)) is t:
                    return True
            except Exception:
                pass
    return False


def registry_request(c, o):
    qs = []
    for q, f in zip(c["queries"], o["facts"]):
        if q["q"] == "data":
            qs.append(dict(q="data", module=f["module"], qualname=f["qualname"], supportedBy=f["supportedBy"], output=q["output"]))
        else:
            ref = q.get("c")
            cidv = BASE_CID if ref == "base" else int(ref[5:]) if isinstance(ref, str) else (100 + ref if ref is not None else 0)
            qs.append(dict(q="mat", t=q["t"], v=q.get("v", ""), c=cidv))
    return dict(op="registry", base=c["base"], classes=o["classes"], created=o["created"], setOrder=o["setOrder"], queries=qs)


def agree_registry(c, o, m):
    if o["names"] != m["names"]:
        return f"REGISTERED_NAMES differs: impl {o['names']} vs model {m['names']}"
    if o["inputs"] != m["inputs"]:
        return f"REGISTERED_INPUTS differs: impl {o['inputs']} vs model {m['inputs']}"
    if sorted(o["setOrder"]) != sorted(m["classes"]):
        return f"set(REGISTERED_NAMES.values()) is {sorted(o['setOrder'])}, the model's registered classes are {sorted(m['classes'])}"
    for q, got, want in zip(c["queries"], o["answers"], m["answers"]):
        if "skip" in got:
            continue
        if "ok" in got or "ok" in want:
            # the iteration order of `set(REGISTERED_NAMES.values())` is CPython's business: among accepting classes of equal
            # precedence that are not explicitly registered for the input type, any one is the model's answer for SOME order
            if got.get("ok") != want.get("ok") and not ("ok" in got and got["ok"] in want.get("any_order", [])):
                return f"query {q}: impl {got} vs model {want}"
            continue
        if got["error"] != want["error"]:
            return f"query {q}: impl raised {got['error']}, model {want['error']}"
        if want["kind"] in ("noInput", "noOutput") and (got["kind"] != want["kind"] or got["listed"] != want["listed"]):
            return f"query {q}: impl error {got['kind']} listing {got['listed']}, model {want['kind']} listing {want['listed']}"
    return None


def oracle_registry(c, o):
    """property: `for_data` returns a materializer that accepts the input and offers the requested output whenever a
    registered one exists (explicit registrations first, then by precedence), and only then; `for_materializer` returns
    the class registered under a name / the class of an instance / a materializer class itself, and rejects the rest"""
    cls = {d["cid"]: d for d in o["classes"]}
    live_n = len([d for d in o["classes"] if d["cid"] < BASE_CID])
    order = ([i for i in range(live_n)] if c["base"] == "live" else []) + o["created"]     # creation order
    registrable = [i for i in order if cls[i]["ownName"] and cls[i]["name"]]
    by_name = {}
    for i in registrable:
        by_name[cls[i]["name"]] = i
    current = set(by_name.values())
    prec = lambda i: Fraction(cls[i]["prec"])
    for q, f, got in zip(c["queries"], o["facts"], o["answers"]):
        if "skip" in got:
            continue
        if q["q"] == "mat":
            if q["t"] == "name":
                want = by_name.get(q["v"])
                if want is None and "ok" in got:
                    return f"for_materializer({q['v']!r}) returned class {got['ok']} although no class is registered under that name"
                if want is not None and got.get("ok") != want:
                    return f"for_materializer({q['v']!r}) gave {got}, the class registered (last) under that name is {want}"
            elif q["t"] in ("cls", "inst"):
                ref = q["c"]
                want = BASE_CID if ref == "base" else int(ref[5:]) if isinstance(ref, str) else 100 + ref
                if got.get("ok") != want:
                    return f"for_materializer(<{q['t']} of class {want}>) gave {got}"
            elif "ok" in got or got["error"] != "FormulaMaterializerInvalidError":
                return f"for_materializer(<{q['v']}>) gave {got}, expected FormulaMaterializerInvalidError"
            continue
        kind, out = q["data"], q["output"]
        declared = [i for i in registrable if cls[i]["ownInputs"] is not None and kind in o["declares"][str(i)]]
        fallback = [i for i in current if i in f["supportedBy"]]
        offers = lambda i: out is None or out in cls[i]["outputs"]
        good_d, good_f = [i for i in declared if offers(i)], [i for i in fallback if offers(i)]
        what = f"for_data(<{kind}>, output={out!r})"
        if "ok" in got:
            r = got["ok"]
            if r not in declared and r not in fallback:
                return f"{what} returned class {r}, which neither declares the input type nor accepts the input (SUPPORTS_INPUT)"
            if not offers(r):
                return f"{what} returned class {r}, which does not offer that output ({cls[r]['outputs']})"
            if good_d:
                if r not in declared:
                    return f"{what} returned the fallback class {r} although {good_d} declare the input type and offer the output"
                if prec(r) < max(prec(i) for i in good_d):
                    return f"{what} returned class {r} (precedence {prec(r)}) although a declaring class with higher precedence offers the output"
            elif prec(r) < max(prec(i) for i in good_f):
                return f"{what} returned class {r} (precedence {prec(r)}) although an accepting class with higher precedence offers the output"
        else:
            if got["error"] != "FormulaMaterializerNotFoundError":
                return f"{what} raised {got['error']}: {got.get('msg')}"
            if good_d or good_f:
                return (f"{what} raised FormulaMaterializerNotFoundError although class(es) {good_d + good_f} accept the input "
                        f"(declared input type: {good_d}, SUPPORTS_INPUT: {good_f}) and offer the output: {got.get('msg')}")
    return None


# ----------------------------------------------------------------------------- stream `sparseops`


def gen_col(rng, n, density=0.5):
    return [fstr(0 if rng.random() > density else Fraction(rng.randint(-6, 6), rng.choice([1, 2]))) for _ in range(n)]


def gen_sparse_case(rng):
    n = rng.randint(0, 7)
    r = rng.random()
    if r < 0.35:
        # whole pipeline: terms over source factors
        terms = []
        k = 0
        for _ in range(rng.randint(1, 3)):
            factors = []
            for _ in range(rng.randint(1, 3)):
                k += 1
                q = rng.random()
                if q < 0.12:
                    # a NUMERICAL factor whose value is a scalar (`x.max()`, `len(x)`, `{7}`): Python int / float, numpy scalar
                    val = fstr(Fraction(rng.randint(-6, 6), rng.choice([1, 1, 2])))
                    as_ = rng.choice(["float", "numpy", "int"]) if Fraction(val).denominator == 1 else rng.choice(["float", "numpy"])
                    factors.append(dict(t="scalar", name=f"f{k}", val=val, nrows=n, **{"as": as_}))
                elif q < 0.2:
                    # ... a plain list with one number per row (`sorted(x)`, `{[5, 6, 7]}`): the same column as an array
                    factors.append(dict(t="num", name=f"f{k}", vals=gen_col(rng, n, rng.choice([0.3, 0.8, 1.0])), as_list=True))
                elif q < 0.5:
                    factors.append(dict(t="num", name=f"f{k}", vals=gen_col(rng, n, rng.choice([0.3, 0.8, 1.0]))))
                else:
                    pool = rng.choice(LEVEL_POOLS)
                    levels = rng.sample(pool, rng.randint(1, 4))
                    vals = [None if rng.random() < 0.15 else rng.choice(levels + pool[:1]) for _ in range(n)]
                    factors.append(dict(t="cat", name=f"f{k}", vals=vals, levels=levels, reduced=rng.random() < 0.4))
            terms.append(dict(scale=rng.choice(["1", "1", "2", "-3", "1/2", "0"]), factors=factors))
        if rng.random() < 0.45:
            # a scoped term without factors: the intercept, `scale * _encode_constant(1, ...)` in `_build_model_matrix`
            terms.insert(rng.randrange(len(terms) + 1), dict(scale=rng.choice(["1", "1", "2", "-3", "1/2", "0"]), factors=[dict(t="one", nrows=n)]))
        # the column path exists twice (pandas and narwhals materializer): both against the one model
        return dict(kind="sparse", op="pipeline", nrows=n, terms=terms, mat=rng.choice(["pandas", "narwhals"]))
    if r < 0.5:
        return dict(kind="sparse", op="mul", a=gen_col(rng, n), b=gen_col(rng, n))
    if r < 0.6:
        return dict(kind="sparse", op="smul", a=gen_col(rng, n), q=rng.choice(["1", "2", "-3", "1/2", "0"]))
    if r < 0.7:
        return dict(kind="sparse", op="ofDense", x=gen_col(rng, n, rng.choice([0.0, 0.5, 1.0])))
    if r < 0.8:
        return dict(kind="sparse", op="hstack", nrows=n, cols=[gen_col(rng, n, rng.choice([0.0, 0.5, 1.0])) for _ in range(rng.randint(1, 4))])
    pool = rng.choice(LEVEL_POOLS)
    vals = [None if rng.random() < 0.15 else rng.choice(pool) for _ in range(n)]
    mode = rng.choice(["none", "levels", "declared"])
    levels = rng.sample(pool, rng.randint(0, 4)) if mode == "levels" else None
    declared = rng.sample(pool, 4) if mode == "declared" else None
    return dict(kind="sparse", op="encode", vals=vals, levels=levels, declared=declared, drop_first=rng.random() < 0.5)


def _csc_cols(m):
    """stored entries per column of a scipy matrix, canonical (sorted indices, explicit zeros kept)"""
    m = m.tocsc(copy=True)
    m.sum_duplicates()
    m.sort_indices()
    out = []
    for j in range(m.shape[1]):
        lo, hi = m.indptr[j], m.indptr[j + 1]
        out.append([[int(i), fstr(Fraction(float(v)))] for i, v in zip(m.indices[lo:hi], m.data[lo:hi])])
    return out


def _dense_cols(arr):
    arr = numpy.asarray(arr, dtype=float)
    return [[fstr(Fraction(float(v))) for v in arr[:, j]] for j in range(arr.shape[1])]


def _arr(col):
    return numpy.array([float(Fraction(v)) for v in col], dtype=float)


class _Spec:
    def __init__(self, output):
        self.output = output


def impl_sparse(c):
    import scipy.sparse as sp
    from formulaic.materializers import NarwhalsMaterializer, PandasMaterializer
    from formulaic.materializers.types import FactorValues
    from formulaic.utils.sparse import categorical_encode_series_to_sparse_csc_matrix

    op = c["op"]
    try:
        if op == "mul":
            a, b = (sp.csc_matrix(_arr(c[k]).reshape((-1, 1))) for k in ("a", "b"))
            r = sp.csc_matrix.multiply(a, b)
            return dict(entries=_csc_cols(sp.csc_matrix(r))[0], dense=_dense_cols(r.toarray())[0],
                        numpy=[fstr(Fraction(float(v))) for v in numpy.multiply(_arr(c["a"]), _arr(c["b"]))])
        if op == "smul":
            a = sp.csc_matrix(_arr(c["a"]).reshape((-1, 1)))
            r = float(Fraction(c["q"])) * a
            return dict(entries=_csc_cols(r)[0], dense=_dense_cols(r.toarray())[0],
                        numpy=[fstr(Fraction(float(v))) for v in float(Fraction(c["q"])) * _arr(c["a"])])
        if op == "ofDense":
            r = sp.csc_matrix(_arr(c["x"]).reshape((-1, 1)))
            return dict(entries=_csc_cols(r)[0], dense=_dense_cols(r.toarray())[0])
        if op == "hstack":
            cols = [sp.csc_matrix(_arr(x).reshape((-1, 1))) for x in c["cols"]]
            r = sp.hstack(cols).tocsc()
            r.sort_indices()
            return dict(indptr=[int(v) for v in r.indptr], indices=[int(v) for v in r.indices],
                        data=[fstr(Fraction(float(v))) for v in r.data], dense=_dense_cols(r.toarray()),
                        numpy=_dense_cols(numpy.stack([_arr(x) for x in c["cols"]], axis=1)))
        if op == "encode":
            series = pandas.Categorical(c["vals"], categories=c["declared"]) if c["declared"] is not None else pandas.Series(c["vals"], dtype=object)
            levels, m = categorical_encode_series_to_sparse_csc_matrix(series, levels=c["levels"], drop_first=c["drop_first"])
            # the dense twin: get_dummies over the same categories
            cats = pandas.Categorical(c["vals"], categories=list(levels))
            dummies = pandas.get_dummies(pandas.Series(cats)).to_numpy(dtype=float).reshape((len(c["vals"]), len(levels)))
            return dict(levels=[str(x) for x in levels], cols=_csc_cols(m), dense=_dense_cols(m.toarray()), numpy=_dense_cols(dummies))
        if op == "pipeline":
            n = c["nrows"]
            out = {}
            for output in ("sparse", "numpy"):
                mzr = (NarwhalsMaterializer if c.get("mat") == "narwhals" else PandasMaterializer)(pandas.DataFrame({"i": range(n)}))
                cols = []
                for t in c["terms"]:
                    if [f["t"] for f in t["factors"]] == ["one"]:
                        # as `_build_model_matrix` does for a scoped term without factors
                        cols.append(("Intercept", float(Fraction(t["scale"])) * mzr._encode_constant(1, None, {}, _Spec(output), [])))
                        continue
                    factors = []
                    for f in t["factors"]:
                        if f["t"] == "scalar":
                            # as `_encode_evaled_factor` hands it over: the evaluated value inside its FactorValues wrapper
                            fr = Fraction(f["val"])
                            v = {"float": float(fr), "numpy": numpy.float64(float(fr)), "int": int(fr)}[f["as"]]
                            enc = mzr._encode_numerical(FactorValues(v, kind="numerical"), None, {}, _Spec(output), [])
                            factors.append({f["name"]: enc})
                        elif f["t"] == "num":
                            vals = FactorValues([float(Fraction(v)) for v in f["vals"]], kind="numerical") if f.get("as_list") else _arr(f["vals"])
                            enc = mzr._encode_numerical(vals, None, {}, _Spec(output), [])
                            factors.append({f["name"]: enc})
                        else:
                            # as the materializers do: encode at full rank, then delete the first level's entry
                            lv = f["levels"]
                            if output == "sparse":
                                levels, m = categorical_encode_series_to_sparse_csc_matrix(pandas.Series(f["vals"], dtype=object), levels=lv)
                                enc = {lvl: m[:, j] for j, lvl in enumerate(levels)}
                            else:
                                cats = pandas.Categorical(f["vals"], categories=lv)
                                d = pandas.get_dummies(pandas.Series(cats)).to_numpy(dtype=float).reshape((n, len(lv)))
                                enc = {lvl: d[:, j] for j, lvl in enumerate(lv)}
                            if f["reduced"] and lv:
                                del enc[lv[0]]
                            fmt = "{name}[T.{field}]" if f["reduced"] else "{name}[{field}]"
                            factors.append({fmt.format(name=f["name"], field=k): v for k, v in enc.items()})
                    cols += list(mzr._get_columns_for_term(factors, _Spec(output), scale=float(Fraction(t["scale"]))).items())
                combined = mzr._combine_columns(cols, _Spec(output), [])
                names = [k for k, _ in cols]
                if output == "sparse":
                    combined = sp.csc_matrix(combined)
                    out["sparse"] = dict(names=names, cols=_csc_cols(combined), dense=_dense_cols(combined.toarray()))
                else:
                    out["dense"] = dict(names=names, cols=_dense_cols(numpy.asarray(combined).reshape((n, len(cols)))))
            return out
    except Exception as e:
        return {"error": type(e).__name__, "msg": str(e)[:200]}
    raise ValueError(op)


def _entries_of(col):
    return [[i, v] for i, v in enumerate(col) if Fraction(v) != 0]


def sparse_request(c, o):
    op = c["op"]
    sc = lambda col: dict(nrows=len(col), entries=_entries_of(col))
    if op == "pipeline":
        return dict(op="sparse", nrows=c["nrows"], terms=c["terms"])
    if op == "mul":
        return dict(op="sparseop", which="mul", a=sc(c["a"]), b=sc(c["b"]))
    if op == "smul":
        return dict(op="sparseop", which="smul", a=sc(c["a"]), q=c["q"])
    if op == "ofDense":
        return dict(op="sparseop", which="ofDense", x=c["x"])
    if op == "hstack":
        return dict(op="sparseop", which="hstack", nrows=c["nrows"], cols=[sc(x) for x in c["cols"]])
    return dict(op="sparseop", which="encode", vals=c["vals"], levels=c["levels"], declared=c["declared"], drop_first=c["drop_first"])


def _nz(entries):
    return [[int(i), fstr(Fraction(v))] for i, v in entries if Fraction(v) != 0]


def _feq(a, b):
    return [Fraction(x) for x in a] == [Fraction(x) for x in b]


def agree_sparse(c, o, m):
    op = c["op"]
    if "error" in o:
        if op == "pipeline" and "error" in (m.get("sparse") or {}) and "error" in (m.get("dense") or {}):
            return None
        return f"implementation raised {o['error']}: {o.get('msg')}"
    if op in ("mul", "smul", "ofDense"):
        # scipy prunes nothing on scalar scaling but may prune zero products: compare the non-zero stored entries and the dense values
        if _nz(o["entries"]) != _nz(m["entries"]):
            return f"stored entries differ: impl {o['entries']} vs model {m['entries']}"
        if not _feq(o["dense"], m["dense"]):
            return f"dense values differ: impl {o['dense']} vs model {m['dense']}"
        return None
    if op == "hstack":
        for k in ("indptr", "indices"):
            if o[k] != m[k]:
                return f"{k} differs: impl {o[k]} vs model {m[k]}"
        if not _feq(o["data"], m["data"]):
            return f"data differs: impl {o['data']} vs model {m['data']}"
        if len(o["dense"]) != len(m["dense"]) or not all(_feq(a, b) for a, b in zip(o["dense"], m["dense"])):
            return "dense values differ"
        return None
    if op == "encode":
        if o["levels"] != m["levels"]:
            return f"levels differ: impl {o['levels']} vs model {m['levels']}"
        mc = [_nz(x["entries"]) for x in m["cols"]]
        if [_nz(x) for x in o["cols"]] != mc:
            return f"coordinates differ: impl {o['cols']} vs model {mc}"
        if len(o["dense"]) != len(m["dense"]) or not all(_feq(a, b) for a, b in zip(o["dense"], m["dense"])):
            return "dense values differ"
        return None
    # pipeline
    ms, md = m["sparse"], m["dense"]
    if "error" in ms or "error" in md:
        return f"model raised {ms.get('error') or md.get('error')}, implementation did not"
    if o["sparse"]["names"] != ms["names"] or o["dense"]["names"] != md["names"]:
        return f"names differ: impl {o['sparse']['names']} / {o['dense']['names']} vs model {ms['names']} / {md['names']}"
    if len(o["sparse"]["dense"]) != len(ms["dense"]) or not all(_feq(a, b) for a, b in zip(o["sparse"]["dense"], ms["dense"])):
        return f"sparse output values differ: impl {o['sparse']['dense']} vs model {ms['dense']}"
    if len(o["dense"]["cols"]) != len(md["cols"]) or not all(_feq(a, b) for a, b in zip(o["dense"]["cols"], md["cols"])):
        return f"numpy output values differ: impl {o['dense']['cols']} vs model {md['cols']}"
    # stored structure of the model's CSC (explicit zeros aside) against scipy's
    cols, pos = [], 0
    for j in range(len(ms["indptr"]) - 1):
        lo, hi = ms["indptr"][j], ms["indptr"][j + 1]
        cols.append(_nz(zip(ms["indices"][lo:hi], ms["data"][lo:hi])))
    if [_nz(x) for x in o["sparse"]["cols"]] != cols:
        return f"stored entries differ: impl {o['sparse']['cols']} vs model {cols}"
    return None


def oracle_sparse(c, o):
    """property: the sparse result holds the same numbers as the dense one"""
    if "error" in o:
        return None if c["op"] == "pipeline" and any(not t["factors"] for t in c["terms"]) else f"sparse operation raised {o['error']}: {o.get('msg')}"
    op = c["op"]
    if op in ("mul", "smul"):
        return None if _feq(o["dense"], o["numpy"]) else f"sparse {op} gives {o['dense']}, numpy gives {o['numpy']}"
    if op == "ofDense":
        return None if _feq(o["dense"], c["x"]) else f"csc_matrix(dense).toarray() is {o['dense']}, dense is {c['x']}"
    if op in ("hstack", "encode"):
        same = len(o["dense"]) == len(o["numpy"]) and all(_feq(a, b) for a, b in zip(o["dense"], o["numpy"]))
        return None if same else f"sparse {op} gives {o['dense']}, the dense twin gives {o['numpy']}"
    s, d = o["sparse"], o["dense"]
    if s["names"] != d["names"]:
        return f"column names differ between sparse and numpy output: {s['names']} vs {d['names']}"
    same = len(s["dense"]) == len(d["cols"]) and all(_feq(a, b) for a, b in zip(s["dense"], d["cols"]))
    return None if same else f"sparse output {s['dense']} differs from numpy output {d['cols']}"


# ----------------------------------------------------------------------------- interface


def cases(rng, tier):
    n_out = {"quick": 110, "thorough": 1200, "search": 60}[tier]
    n_entry = {"quick": 260, "thorough": 3000, "search": 80}[tier]
    n_sparse = {"quick": 500, "thorough": 6000, "search": 100}[tier]
    n_reuse = {"quick": 70, "thorough": 800, "search": 60}[tier]
    n_reg = {"quick": 160, "thorough": 2500, "search": 80}[tier]
    n_relabel = {"quick": 60, "thorough": 700, "search": 50}[tier]
    n_wrap = {"quick": 60, "thorough": 600, "search": 30}[tier]
    n_perspec = {"quick": 40, "thorough": 500, "search": 60}[tier]
    for _ in range(n_out):
        yield gen_outputs_case(rng, tier)
    for _ in range(n_reuse):
        yield gen_reuse_case(rng, tier)
    for _ in range(n_entry):
        yield gen_entry_case(rng)
    for _ in range(n_relabel):
        yield gen_relabel_case(rng, tier)
    for _ in range(n_wrap):
        yield gen_wrapper_case(rng)
    for _ in range(n_perspec):
        yield gen_perspec_case(rng, tier)
    yield gen_registry_case(rng, sweep=True)
    for _ in range(n_reg):
        yield gen_registry_case(rng)
    for _ in range(n_sparse):
        yield gen_sparse_case(rng)


def describe(c):
    k = c["kind"]
    if k == "outputs":
        return f"outputs,na={c['na']},extra={'/'.join(c['extra'])}"
    if k == "entry":
        return f"entry,{c['spec']['t']},ov={len(c['overrides'])},{c['data']}"
    if k == "reuse":
        return f"reuse,{c['mat']},calls={len(c['calls'])}"
    if k == "registry":
        return f"registry,{c['base']},classes={len(c['classes'])}"
    if k == "relabel":
        return f"relabel,{c['index']},na={c['na']}"
    if k == "wrapper":
        return f"wrapper,{c['output']},ops={len(c['ops'])}"
    if k == "perspec":
        return f"perspec,parts={len(c['parts'])},na={c['na']},trained={c['trained']}"
    return f"sparse,{c['op']}"


def nontrivial(c):
    k = c["kind"]
    if k == "outputs":
        return ":" in c["formula"] or any(n in c["cols"] for n in ("A", "B"))
    if k == "entry":
        return c["spec"]["t"] in ("sformula", "mspecs") or bool(c["overrides"])
    if k == "reuse":
        key = lambda q: (q["formula"], q["output"], q["efr"], q["na"], q["via"])
        return len({key(q) for q in c["calls"]}) >= 2
    if k == "registry":
        return len(c["classes"]) >= 2 or len(c["queries"]) > 20
    if k == "relabel":
        return True
    if k == "wrapper":
        return len(c["ops"]) >= 2 or len(c["items"]) >= 2
    if k == "perspec":
        return True
    return c["op"] == "pipeline" and any(len(t["factors"]) >= 2 for t in c["terms"]) or c["op"] in ("mul", "encode")


def impl(c):
    k = c["kind"]
    if k == "outputs":
        return impl_outputs(c)
    if k == "entry":
        return impl_entry(c)
    if k == "reuse":
        return impl_reuse(c)
    if k == "registry":
        return impl_registry(c)
    if k == "relabel":
        return impl_relabel(c)
    if k == "wrapper":
        return impl_wrapper(c)
    if k == "perspec":
        return impl_perspec(c)
    return impl_sparse(c)


def request(c, o):
    if "harness_exception" in o or "skip" in o:
        return dict(op="noop")
    k = c["kind"]
    if k in ("reuse", "relabel", "perspec"):
        return dict(op="noop")  # no model: the stream compares the implementation with itself
    if k == "outputs":
        return outputs_request(c, o)
    if k == "entry":
        return entry_request(c, o)
    if k == "registry":
        return registry_request(c, o)
    if k == "wrapper":
        return wrapper_request(c, o)
    return sparse_request(c, o)


def agree(c, o, m):
    if "driver_error" in m:
        return "driver: " + m["driver_error"][:300]
    if "harness_exception" in o:
        return None
    if "error" in m and len(m) == 1:
        return "engine: " + str(m["error"])
    k = c["kind"]
    if k in ("reuse", "relabel", "perspec"):
        return None
    if k == "outputs":
        return agree_outputs(c, o, m)
    if k == "entry":
        return agree_entry(c, o, m)
    if k == "registry":
        return agree_registry(c, o, m)
    if k == "wrapper":
        return agree_wrapper(c, o, m)
    return agree_sparse(c, o, m)


def oracle(c, o):
    if "harness_exception" in o:
        return "harness could not run the implementation: " + o["harness_exception"]
    k = c["kind"]
    if k == "outputs":
        return oracle_outputs(c, o)
    if k == "entry":
        return oracle_entry(c, o)
    if k == "reuse":
        return oracle_reuse(c, o)
    if k == "registry":
        return oracle_registry(c, o)
    if k == "relabel":
        return oracle_relabel(c, o)
    if k == "wrapper":
        return oracle_wrapper(c, o)
    if k == "perspec":
        return oracle_perspec(c, o)
    return oracle_sparse(c, o)


def classify(c, o, why):
    return None


LEVEL_TEXT = (
    "Proof: Lean theorems (Props/C05.lean, 30). (0) The property on the model as ONE statement: for every environment, call "
    "record and formula content, any two output types asked through any two entry points (top-level function, formula method, "
    "model-spec / model-specs method with or without overrides, materializer method) give, request by request and part by part, "
    "the same column names in the same order and the same numbers whenever both succeed (`same_numbers_any_output_any_entry`), "
    "composed of: (1) for ALL columns and sizes the sparse column operations (csc_matrix(dense), multiply, scalar scaling, the "
    "sparse dummy encoder, hstack into CSC arrays) denote the dense ones and the whole sparse pipeline equals the numpy pipeline "
    "column for column and name for name (a scalar-valued numerical factor included: it is the constant column under every output, "
    "alone, scaled and times a numeric column — `scalar_factor_is_constant_column`); (2) for ALL call records every pair of entry points hands the same request to "
    "FormulaMaterializer.get_model_matrix (identical, `drop_rows` object included, when both forwarding flags probed on the live "
    "code are set), they fail together, same context layering; the requested output type only changes the `output` field of the "
    "prepared leaves. (3) The materializer registry: `__register_implementation__` in closed form for any creation history "
    "(REGISTERED_INPUTS[t] = declaring classes, stably sorted by descending precedence; REGISTERED_NAMES[n] = last class of that "
    "name), `for_materializer` (name / instance / class / invalid), `for_data` = first candidate offering the output, which "
    "supports the input and the output whenever such a class exists and raises exactly otherwise, explicit registrations before "
    "SUPPORTS_INPUT fallbacks, precedence order inside each group, independent of the set iteration order; the model reproduces "
    "the live registry and dispatches every input type a shipped materializer declares (decided on the generated table on every "
    "run); every request is served by a registered class that offers each leaf's output and is either the nominated one or "
    "for_data's choice, which accepts the data, and its leaves agree on output / null policy / rank setting (RuntimeError "
    "otherwise, in the model as in the code); ModelSpecs whose parts cannot share a materializer are generated part by part with "
    "ONE shared drop set (the caller's or a fresh one) in one pass, or two identical passes exactly when the set grew "
    "(`per_spec_generation`). (4) The ModelMatrix wrapper: copy / deepcopy / pickle in any sequence keep the "
    "attached spec's names and the numbers (given faithful copiers), ModelMatrices/ModelSpecs accept exactly their leaf type and "
    "`.model_spec` keeps the keys. (5) The kind tables of the materializers (generated) agree for every dtype. The models are "
    "tied to the code by differential correspondence on every run (streams entry, registry, wrapper, sparseops, outputs); the "
    "agreement of whole matrices across outputs, input types, entry points (formula-based, and spec-based on a spec that already "
    "has structure, also on relabelled rows), materializer/input combinations and fresh vs reused materializer instances (also "
    "after a failed call) is checked on the real code."
)
LEVEL_NOTE = (
    "Trusted: Lean kernel + propext/Classical.choice/Quot.sound; hand models of sparse.py / the fast column path / the "
    "entry-point plumbing / the registry / the wrapper validated by correspondence; scipy/numpy/narwhals/pyarrow are observed "
    "(partial: library conversions are not proved); SUPPORTS_INPUT, type names and the set order are parameters read off the live "
    "objects; frame capture is not modelled."
)
