#!/bin/bash
id=$1; d=/tmp/mut-$id
/venv/bin/python - "$id" "$d" <<'PY' 2>/dev/null
import sys
id, d = sys.argv[1], sys.argv[2]
t = open('/tmp/muttools/PROMPT.txt').read()
prop = open(d + '/property.txt').read()
open(d + '/PROMPT.txt', 'w').write(t.replace('{PROP}', prop).replace('{D}', d).replace('{ID}', id))
PY
