#!/venv/bin/python
"""Which lines/branches of /repo/formulaic do the correspondence streams execute?

usage: PYTHONPATH=/verif:/repo tools/impl_coverage.py [--tier quick] [--seed 0] [C01 C02 ...]
Runs every property module's `cases(rng, tier)` + corpus through `impl` (the real code, in-process)
under coverage.py (branch coverage) and writes
  coverage/<ID>.json   per property: {file: {executed: n, missing: [lines], missing_branches: [[a,b],…]}}
  coverage/UNION.json  union over the properties run
  coverage/SUMMARY.md  per-file table for the union, plus the uncovered lines of each file
The numbers measure the generators (what the differential tie actually exercises), not the proofs.
"""
import argparse, hashlib, importlib, json, os, random, sys
from pathlib import Path

ROOT = Path(__file__).resolve().parent.parent
sys.path.insert(0, str(ROOT))
REPO = os.environ.get("FV_REPO", "/repo")
sys.path.insert(0, REPO)

import coverage  # noqa: E402


def run_prop(prop, tier, seed, data_file):
    cov = coverage.Coverage(data_file=data_file, branch=True, source=[os.path.join(REPO, "formulaic")], config_file=False)
    cov.start()
    try:
        from harness import common
        mod = importlib.import_module(f"harness.props.{prop.lower()}")
        rng = random.Random(seed * 1000003 + int(hashlib.sha256(prop.encode()).hexdigest()[:8], 16))
        cases = []
        cdir = ROOT / "corpus" / prop
        if cdir.exists():
            for f in sorted(cdir.glob("*.json")):
                cases.append(json.loads(f.read_text())["case"])
        cases += list(mod.cases(rng, tier))
        n = 0
        for c in cases:
            try:
                common.with_timeout(mod.impl, c)
            except (Exception, common.CaseTimeout):
                pass
            n += 1
    finally:
        cov.stop()
        cov.save()
    return cov, n


def report(cov):
    out = {}
    data = cov.get_data()
    for f in sorted(data.measured_files()):
        if "/formulaic/" not in f:
            continue
        try:
            an = cov._analyze(f)
        except Exception:
            continue
        rel = f.split("/formulaic/", 1)[1]
        mb = sorted([list(p) for p in an.arcs_missing()]) if an.has_arcs else []
        out[rel] = dict(statements=len(an.statements), executed=len(an.executed), missing=sorted(an.missing), missing_branches=mb)
    return out


def main():
    ap = argparse.ArgumentParser()
    ap.add_argument("props", nargs="*")
    ap.add_argument("--tier", default="quick")
    ap.add_argument("--seed", type=int, default=0)
    ap.add_argument("--child")
    a = ap.parse_args()
    outdir = ROOT / "coverage"
    outdir.mkdir(exist_ok=True)
    if a.child:  # one property in its own process (modules patch things at import time)
        cov, n = run_prop(a.child, a.tier, a.seed, str(outdir / f".cov.{a.child}"))
        (outdir / f"{a.child}.json").write_text(json.dumps(dict(property=a.child, tier=a.tier, seed=a.seed, cases=n, files=report(cov)), indent=1))
        return
    props = a.props or [f"C{i:02d}" for i in range(1, 21)]
    import subprocess
    from concurrent.futures import ThreadPoolExecutor

    def one(p):
        env = dict(os.environ, PYTHONPATH=f"{ROOT}:{REPO}", PYTHONHASHSEED="0", PYTHONWARNINGS="ignore", FORMULAIC_VERIF="1")
        r = subprocess.run([sys.executable, "-W", "ignore", __file__, "--child", p, "--tier", a.tier, "--seed", str(a.seed)], env=env, capture_output=True, text=True)
        return p, r.returncode, r.stderr[-500:]

    with ThreadPoolExecutor(8) as ex:
        for p, rc, err in ex.map(one, props):
            print(p, "rc", rc, err if rc else "", flush=True)
    comb = coverage.Coverage(data_file=str(outdir / ".cov.union"), branch=True, config_file=False)
    comb.combine([str(outdir / f".cov.{p}") for p in props if (outdir / f".cov.{p}").exists()], keep=False)
    comb.save()
    rep = report(comb)
    (outdir / "UNION.json").write_text(json.dumps(dict(props=props, tier=a.tier, seed=a.seed, files=rep), indent=1))
    lines = ["# Lines of formulaic executed by the correspondence streams (union over %s, tier %s, seed %d)" % (" ".join(props), a.tier, a.seed), "",
             "| file | statements | executed | % | missing branches |", "|---|---|---|---|---|"]
    ts = te = 0
    for f, r in rep.items():
        ts += r["statements"]; te += r["executed"]
        lines.append(f"| {f} | {r['statements']} | {r['executed']} | {100*r['executed']//max(1,r['statements'])} | {len(r['missing_branches'])} |")
    lines.append(f"| TOTAL | {ts} | {te} | {100*te//max(1,ts)} | |")
    lines.append("")
    for f, r in rep.items():
        if r["missing"]:
            lines.append(f"* `{f}` not executed: {r['missing']}")
    (outdir / "SUMMARY.md").write_text("\n".join(lines) + "\n")
    print(f"TOTAL {te}/{ts}")
    for p in outdir.glob(".cov.*"):
        p.unlink()


if __name__ == "__main__":
    main()
