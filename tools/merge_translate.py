#!/usr/bin/env python3
"""merge_translate.py <other translate.py> — add the top-level definitions and GENERATORS entries that the other file has
and /verif/harness/translate.py lacks (agents only ADD a generator function + its entry)."""
import ast, re, sys
import os
cur_p = os.environ.get("INTEGRATE_INTO", "/verif") + "/harness/translate.py"
cur, oth = open(cur_p).read(), open(sys.argv[1]).read()
ct, ot = ast.parse(cur), ast.parse(oth)
def names(t):
    out = {}
    for n in t.body:
        if isinstance(n, (ast.FunctionDef, ast.ClassDef)):
            out[n.name] = n
        elif isinstance(n, ast.Assign) and len(n.targets) == 1 and isinstance(n.targets[0], ast.Name):
            out[n.targets[0].id] = n
    return out
cn, on = names(ct), names(ot)
olines = oth.split("\n")
add = []
for k, n in on.items():
    if k not in cn and k != "GENERATORS":
        start = min([n.lineno] + [d.lineno for d in getattr(n, "decorator_list", [])]) - 1
        add.append("\n".join(olines[start:n.end_lineno]))
        print("adding definition", k)
def entries(src):
    m = re.search(r"^GENERATORS = \{\n(.*?)^\}", src, re.S | re.M)
    return [l for l in m.group(1).split("\n") if l.strip()]
ce, oe = entries(cur), entries(oth)
new_e = [l for l in oe if l.strip() not in {x.strip() for x in ce}]
for l in new_e:
    print("adding entry", l.strip())
i = cur.index("GENERATORS = {")
cur = cur[:i] + "".join(a + "\n\n\n" for a in add) + cur[i:]
cur = re.sub(r"(^GENERATORS = \{\n.*?)(^\})", lambda m: m.group(1) + "".join(l + "\n" for l in new_e) + m.group(2), cur, flags=re.S | re.M)
# imports the other file has at top level and we lack
ci = {ast.unparse(n) for n in ct.body if isinstance(n, (ast.Import, ast.ImportFrom))}
for n in ot.body:
    if isinstance(n, (ast.Import, ast.ImportFrom)) and ast.unparse(n) not in ci:
        print("NOTE: other file imports", ast.unparse(n), "(add by hand if needed)")
ast.parse(cur)
open(cur_p, "w").write(cur)
