#!/venv/bin/python
"""Run the pinned baseline suite on a repo tree and report stable_pass tests that no longer pass.
usage: baseline.py [repo_dir]   (exit 0 iff every stable_pass test passes)"""
import json, subprocess, sys, tempfile, xml.etree.ElementTree as ET, os
repo = sys.argv[1] if len(sys.argv) > 1 else "/repo"
base = json.load(open("/root/.vp/BASELINE.json"))
want = set(base["stable_pass"])
with tempfile.TemporaryDirectory() as d:
    x = os.path.join(d, "j.xml")
    env = dict(os.environ); env.pop("FORMULAIC_VERIF", None)
    env["PYTHONPATH"] = repo
    subprocess.run(["/venv/bin/python", "-m", "pytest", "-ra", "-q", "-p", "no:cacheprovider", "--timeout=900",
                    "--continue-on-collection-errors", f"--junitxml={x}"], cwd=repo, env=env,
                   stdout=subprocess.DEVNULL, stderr=subprocess.DEVNULL)
    passed = set()
    for tc in ET.parse(x).getroot().iter("testcase"):
        if not any(c.tag in ("failure", "error", "skipped") for c in tc):
            passed.add(f"{tc.get('classname')}::{tc.get('name')}")
missing = sorted(want - passed)
print(f"passed={len(passed)} stable_pass={len(want)} missing={len(missing)}")
for m in missing[:30]:
    print("  NOT PASSING:", m)
sys.exit(1 if missing else 0)
