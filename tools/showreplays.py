#!/venv/bin/python
import json,glob,os,sys
prop=sys.argv[1]; n=int(sys.argv[2]) if len(sys.argv)>2 else 5
fs=sorted(glob.glob(f'/verif/replays/{prop}-*.json'), key=os.path.getmtime)[-n:]
for f in fs:
    r=json.load(open(f))
    c=r.get('case',{})
    print('==',os.path.basename(f), r['kind'])
    print('  why:', str(r.get('why'))[:600])
    print('  case:', json.dumps({k:v for k,v in c.items() if k!='ast'})[:400])
    if '-v' in sys.argv:
        print('  impl:', json.dumps(r.get('impl'))[:800]); print('  model:', json.dumps(r.get('model'))[:800])
    if r['kind']=='no-failing-input-found':
        print('  broken:', r.get('broken')); fd=r.get('first_disagreement') or {}
        print('  first:', json.dumps(fd)[:1500])
