#!/bin/bash
# usage: mkagent.sh <name>  — private copy of /verif (with build output) and a worktree of /repo HEAD
set -e
n=$1; d=/var/tmp/fv-$n
rm -rf "$d"; mkdir -p "$d"
rsync -a --exclude .git /verif/ "$d/verif/"
git -C /repo worktree add --detach "$d/repo" HEAD >/dev/null 2>&1
echo "$d"
