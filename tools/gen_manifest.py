#!/venv/bin/python
"""Regenerate MANIFEST.json from harness/props/*.py (LEVEL_TEXT, LEVEL_NOTE, TECHNIQUE, DESIGN_REF)."""
import importlib, json, sys, os
sys.path.insert(0, "/verif")
ALL = [f"C{i:02d}" for i in range(1, 21)]
checks, na = [], []
for pid in ALL:
    try:
        m = importlib.import_module(f"harness.props.{pid.lower()}")
    except ModuleNotFoundError:
        na.append(dict(property_id=pid, reason="not yet claimed: the Lean model, theorems and correspondence for this property are still being built (see DESIGN.md section 6); no other technique is substituted"))
        continue
    if not getattr(m, "CLAIMED", True):
        na.append(dict(property_id=pid, reason="not yet claimed: model and correspondence exist but the property theorems are still being proved; no other technique is substituted"))
        continue
    checks.append(dict(
        property_id=pid,
        quick_cmd=f"./check {pid} --tier quick",
        thorough_cmd=f"./check {pid} --tier thorough",
        evidence_file=f"evidence/{pid}.json",
        replay_cmd_template=f"./check {pid} --replay {{path}}",
        engine="lean4-model+correspondence",
        level_claimed=dict(category="proof", text=m.LEVEL_TEXT, design_ref=getattr(m, "DESIGN_REF", f"DESIGN.md section 6, {pid}")),
        level_note=m.LEVEL_NOTE,
        technique=getattr(m, "TECHNIQUE", "Lean 4 theorems about a hand-written executable model, tied to the code by a differential correspondence check on every run"),
    ))
man = dict(
    version=1,
    setup_cmd="cd /verif && ./setup.sh",
    hooks=dict(
        guard="FORMULAIC_VERIF",
        enable="no hooks are compiled into /repo; checks export FORMULAIC_VERIF=1 but the source does not read it (all observation is done from the harness)",
        baseline_off_cmd="cd /repo && /venv/bin/python -m pytest -ra -q -p no:cacheprovider --timeout=900 --continue-on-collection-errors",
        source_commits=[],
        add_only=True,
    ),
    engines=[dict(name="lean4-model+correspondence", path="lean/", serves_properties=[c["property_id"] for c in checks],
                  kind_free_text="Lake library FormulaicVerif (models, specs, generated tables, proofs, property theorems) + Driver.lean JSON line protocol; Python harness under harness/")],
    checks=checks,
    not_applicable=na,
    notes="See DESIGN.md. fix: commits in /repo are listed in known_findings.json.",
)
json.dump(man, open("/verif/MANIFEST.json", "w"), indent=1)
print("claimed", [c["property_id"] for c in checks], "not claimed", [n["property_id"] for n in na])
