#!/venv/bin/python
"""Confirm a seeded change and run our checks against it.

usage: run_seeded.py <mutant_dir> <PROP> <name> [--all]
  <mutant_dir> holds patch.diff, demo.py, meta.json written by an independent sub-agent.
Steps (all in a scratch worktree of /repo HEAD under /var/tmp, removed afterwards):
  1. patch applies; 2. baseline suite still passes; 3. demo exits 0 on clean, non-zero with the change;
  4. `FV_REPO=<worktree> ./check PROP` (quick) -> did we report a VIOLATION, with or without a failing input?
  (--all: also run every other claimed check and record which ones fire)
If 1-3 hold the mutant is kept under /verif/seeded/<name>/ with meta.json extended by what was run.
"""
import json, os, shutil, subprocess, sys, tempfile, time

mut, prop, name = sys.argv[1], sys.argv[2], sys.argv[3]
run_all = "--all" in sys.argv
W = f"/var/tmp/seed-{name}"
# VERIF_COPY: run ./check from a private copy of /verif (with its own lean/.lake and Gen tables) so that several
# seeded changes can be checked in parallel; the kept files always go to /verif/seeded/
V = os.environ.get("VERIF_COPY", "/verif")


def sh(cmd, **kw):
    return subprocess.run(cmd, shell=True, capture_output=True, text=True, **kw)


def demo(tree):
    env = dict(os.environ, PYTHONPATH=tree, PYTHONWARNINGS="ignore")
    p = subprocess.run(["/venv/bin/python", "-W", "ignore", os.path.join(mut, "demo.py")], env=env, capture_output=True, text=True, timeout=600)
    return p.returncode, (p.stdout + p.stderr)[-500:]


sh(f"git -C /repo worktree remove --force {W}; rm -rf {W}")
r = sh(f"git -C /repo worktree add --detach {W} HEAD")
res = dict(name=name, property=prop, ran_at=time.strftime("%Y-%m-%d %H:%M:%S"), repo_head=sh("git -C /repo rev-parse --short HEAD").stdout.strip())
try:
    clean_rc, _ = demo(W)
    a = sh(f"git -C {W} apply --whitespace=nowarn {os.path.join(mut, 'patch.diff')}")
    res["patch_applies"] = a.returncode == 0
    if a.returncode != 0:
        res["error"] = a.stderr[-400:]
        raise SystemExit
    b = sh(f"/verif/tools/baseline.py {W}")
    res["baseline"] = [l for l in b.stdout.splitlines() if l.startswith("passed=")][-1:] or [b.stdout[-200:]]
    res["baseline_ok"] = b.returncode == 0
    mut_rc, mut_out = demo(W)
    res["demo_clean_exit"], res["demo_mutant_exit"], res["demo_output"] = clean_rc, mut_rc, mut_out
    res["confirmed"] = bool(res["baseline_ok"] and clean_rc == 0 and mut_rc != 0)
    props = [prop]
    if run_all:
        man = json.load(open("/verif/MANIFEST.json"))
        props += [c["property_id"] for c in man["checks"] if c["property_id"] != prop]
    res["checks"] = {}
    for p in props:
        t0 = time.time()
        c = sh(f"cd {V} && FV_REPO={W} VERIF_SEED=0 timeout 1500 ./check {p}")
        lines = [l for l in c.stdout.splitlines() if l.startswith(("VIOLATION", "OK ", "KNOWN-FINDING"))]
        viol = [l for l in lines if l.startswith("VIOLATION")]
        verdict = "not-detected"
        if viol:
            verdict = "detected-no-failing-input" if all("no-failing-input-found" in l for l in viol) else "detected-with-failing-input"
        why = None
        if viol:
            try:
                rp = viol[0].split("replay=")[1].split()[0]
                why = str(json.load(open(V + "/" + rp)).get("why") or json.load(open(V + "/" + rp)).get("broken"))[:400]
            except Exception:
                pass
        res["checks"][p] = dict(exit=c.returncode, verdict=verdict, why=why, wall_s=round(time.time() - t0, 1))
finally:
    sh(f"git -C /repo worktree remove --force {W}; rm -rf {W}")
    # the check regenerates Gen/*.lean from the tree under test: restore them for /repo
    sh(f"cd {V} && PYTHONPATH={V}:/repo /venv/bin/python -W ignore -m harness.translate")

if res.get("confirmed"):
    dst = f"/verif/seeded/{name}"
    os.makedirs(dst, exist_ok=True)
    for f in ("patch.diff", "demo.py"):
        shutil.copy(os.path.join(mut, f), os.path.join(dst, f))
    meta = {}
    try:
        meta = json.load(open(os.path.join(mut, "meta.json")))
    except Exception:
        pass
    meta["breaks_property"] = prop
    meta["confirmation"] = {k: res[k] for k in ("repo_head", "baseline", "demo_clean_exit", "demo_mutant_exit", "ran_at")}
    meta["what_was_run"] = [
        "git worktree of /repo HEAD + git apply patch.diff",
        "/verif/tools/baseline.py <worktree> (pinned suite: all 463 stable tests must pass)",
        "demo.py with PYTHONPATH=<clean worktree> (exit 0) and PYTHONPATH=<patched worktree> (exit != 0)",
        "FV_REPO=<patched worktree> ./check <ID> (quick tier, seed 0)",
    ]
    meta["our_checks"] = res["checks"]
    json.dump(meta, open(os.path.join(dst, "meta.json"), "w"), indent=1)
print(json.dumps(res, indent=1))
