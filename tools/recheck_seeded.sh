#!/bin/bash
# usage: recheck_seeded.sh <slot> <name> [<name> ...]   e.g. recheck_seeded.sh 1 C16-m7 C20-m7
# re-confirm kept seeded changes against the current /repo HEAD and re-run our check (from a private copy of /verif)
slot=$1; shift
V=/var/tmp/vcopy-$slot
rm -rf $V; rsync -a --exclude .git --exclude replays /verif/ $V/; mkdir -p $V/replays
for name in "$@"; do
  id=${name%%-*}
  T=/var/tmp/reseed-$name; rm -rf $T; cp -r /verif/seeded/$name $T
  VERIF_COPY=$V /verif/tools/run_seeded.py $T $id $name 2>&1 | grep -v conda | /venv/bin/python -c "
import sys, json
try:
    r=json.load(sys.stdin)
    print(r['name'], 'confirmed=',r.get('confirmed'), 'applies=', r.get('patch_applies'), 'demo=',r.get('demo_clean_exit'),r.get('demo_mutant_exit'), {k:(v['verdict'], (v['why'] or '')[:160]) for k,v in r.get('checks',{}).items()}, r.get('error',''), flush=True)
except Exception as e: print('ERR', e, flush=True)
" 2>&1 | grep -v conda
  rm -rf $T
done
rm -rf $V
echo BATCHDONE $slot
