#!/venv/bin/python
"""mkext.py <ID>  — sandbox + prompt for an extension builder: /var/tmp/fv-x<id>/{verif,repo,PROMPT.txt}"""
import os, subprocess, sys

ID = sys.argv[1]
idl = ID.lower()
d = f"/var/tmp/fv-x{idl}"
W, R = d + "/verif", d + "/repo"

FILES = {
    "C01": "formula.py (from_spec/parse entry points), parser/parser.py, parser/types/{term,factor,formula_parser,ast_node,operator,ordered_set}.py, parser/algos/tokens_to_ast.py",
    "C02": "materializers/base.py (_get_columns_for_term, _get_scoped_terms*, _evaluate*, _encode*), materializers/pandas.py, materializers/narwhals.py, materializers/types/{scoped_term,scoped_factor,evaluated_factor,factor_values}.py",
    "C03": "materializers/base.py (_get_scoped_terms, _simplify_scoped_terms, _get_scoped_terms_spanned_by_evaled_factors), materializers/types/{scoped_term,scoped_factor}.py",
    "C04": "model_spec.py (get_model_matrix, __getstate__), utils/stateful_transforms.py, transforms/{scale,poly,basis_spline,cubic_spline,contrasts}.py state handling, materializers/base.py (_prepare_model_specs, _evaluate_factor, _encode_evaled_factor)",
    "C05": "model_matrix.py, sugar.py, formula.py (get_model_matrix), model_spec.py (get_model_matrix, ModelSpecs), materializers/base.py (FormulaMaterializerMeta.for_materializer/for_data registry lines 70-126, _build_model_matrix, output handling), materializers/{pandas,narwhals}.py, utils/{cast,sparse}.py",
    "C06": "utils/null_handling.py (find_nulls / drop_rows for EVERY value type: scalar, list, dict, narwhals/pandas Series, 0/1/2-d ndarray, sparse matrix — 35 branches never executed today), materializers/base.py (_evaluate_factor null handling, drop_rows bookkeeping), transforms/{contrasts,hashed}.py row dropping",
    "C07": "materializers/base.py (get_model_matrix over structured specs, _build_model_matrix), model_spec.py (ModelSpecs.get_model_matrix, ModelSpecs.subset/differentiate lines 800-836), utils/structured.py mapping of parts",
    "C08": "materializers/{pandas,narwhals}.py (_is_categorical, _encode_categorical, _encode_numerical, _encode_constant), transforms/contrasts.py (encode_contrasts, levels inference), utils/{cast,sparse}.py",
    "C09": "transforms/contrasts.py (encode_contrasts with recorded state, Contrasts.apply, custom contrasts lines 866-922), materializers/base.py (_evaluate_factor kind check, _encode_evaled_factor), model_spec.py (subset, encoder_state)",
    "C10": "model_spec.py (column_names, column_indices, term_indices, term_slices, term_factors, term_variables, factors, factor_terms, factor_variables — lines 300-360 never executed —, variable_terms, variable_indices, get_slice, subset, ModelSpecs.subset lines 800-836)",
    "C11": "transforms/contrasts.py (every Contrasts subclass incl. CustomContrasts lines 866-922, Contrasts.apply output inference lines 235-241, get_coefficient_matrix, encode_contrasts)",
    "C12": "transforms/basis_spline.py, transforms/cubic_spline.py (uncovered: lines 203, 282, 286, 308, 319, 324, 495, 497, 543, 552, 558 — argument validation and error branches), transforms/patsy_compat.py",
    "C13": "transforms/scale.py (lines 64-66), transforms/poly.py, transforms/patsy_compat.py (lines 29, 34: standardize / Q / Treatment shims), transforms/__init__.py, transforms/identity.py",
    "C14": "parser/parser.py, parser/utils.py, parser/algos/{tokenize,tokens_to_ast}.py, parser/types/{token,operator,operator_resolver,formula_parser,ast_node}.py (error paths; the MULTISTAGE configuration is excluded from the theorem today)",
    "C15": "parser/algos/{tokenize,sanitize_tokens}.py, parser/types/token.py (lines 111-127, 167, 184, 220-272: token kinds, to_factor/to_terms, get_source_context, split), utils/code.py",
    "C16": "utils/constraints.py (lines 82-189: LinearConstraints.parse for every specification form — LinearConstraints instance, string, list/tuple, dict, (matrix, values) tuple, numpy array —, n_constraints, __repr__, str form), parser/types/operator_resolver.py",
    "C17": "utils/variables.py, utils/stateful_transforms.py (lines 57, 61, 156, 213), utils/layered_mapping.py (lines 94, 160-162), utils/context.py, formula.py (required_variables), model_spec.py (required_variables, variables_by_source), parser/parser.py ('.' expansion)",
    "C18": "materializers/base.py (caches, _prepare_model_specs), model_spec.py (update/replace, state copies), utils/stateful_transforms.py, transforms/* (argument objects), formula.py",
    "C19": "utils/structured.py (23% never executed: default merger lines 419-431, __getattr__/__setattr__, path lookup, __getitem__/__setitem__, __iter__, __eq__, __contains__, __len__, _to_dict, _simplify, _update, _merge), utils/layered_mapping.py, formula.py (SimpleFormula/StructuredFormula sequence and mapping protocol)",
    "C20": "utils/calculus.py (non-sympy path), formula.py (differentiate), model_spec.py (differentiate, ModelSpecs.differentiate lines 829-836)",
}

HINTS = {
    "C01": """     - the single statement `parse_eq_denote` is still `FULL (unproved)`: combine `grammar_parses`/`shunt_complete`, the top-level `~`/`|` parse theorems and the intercept theorems into ONE theorem `parseTerms cfg (render f) = denoteFormula cfg f` for the documented grammar (start without `.`, name it `…_partial` if `.` stays out), or at least an evaluation-equals-denotation induction for the arithmetic operators (+ - * / : ** %in%) on term sets;
     - the "equivalent specification forms" clause (string vs list of terms vs lhs=/rhs= keywords vs nested structure, `Formula.from_spec`, `SimpleFormula`/`StructuredFormula` construction, `_ordering` none/degree/sort) — model `from_spec` and prove the forms equal;
     - algebraic laws of the term algebra on the model: `+` idempotent/associative up to first-occurrence order, `-` as set difference, `:` distributes over `+`, `**n` for every n as iterated `*`.""",
    "C02": """     - nested encoded dicts (a factor returning a dict / DataFrame / 2-d array with several columns; `poly(x, 3)`, `bs(x, df=4)` inside interactions): names `factor[key]` and Kronecker order with multi-column numeric factors;
     - term/column theorems for the cluster_by=numerical ordering option and for `ensure_full_rank=False` with duplicates;
     - model `FactorValues` metadata propagation (column_names, drop_field, format, format_reduced, encoded flag) instead of receiving it as data.""",
    "C03": """     - the bridge that is `FULL (unproved)`: `matrix_columns_are_structure_columns`, identifying the abstract structure columns with the `List Rat` entry columns of `buildMatrix` on a crossed design (you may restrict to collision-free printed names and say so), so that `reduced_matrix_full_rank_same_span` becomes a statement about the matrix the model emits;
     - "every built-in contrast": extend the rank/span theorem from treatment coding to any coding matrix C with `[1 | C]` invertible (C11 proves that for every built-in coding);
     - "every ordering or clustering of the terms": a theorem that the span does not depend on the term permutation.""",
    "C04": """     - dict-/multi-column-valued stateful transforms through the whole pipeline (per-key nested state), `poly`/`bs`/`cr` inside interactions;
     - "any subset, duplication or reordering of rows": state `replay_select` for an arbitrary index LIST (with repetitions), not only sublists, if it is not already;
     - pickle: model `ModelSpec.__getstate__`/field list from the live dataclass (generated table) and prove the round trip is the identity on every field the replay reads.""",
    "C05": """     - the materializer registry: `for_materializer` (name / instance / class / invalid → error) and `for_data` (registered input types, SUPPORTS_INPUT fallback order by REGISTER_PRECEDENCE, output filtering, the two error branches) are never executed by any stream: model them over a generated table of the registered materializers and prove `for_data` returns a materializer that supports the input and the requested output whenever one exists;
     - `ModelMatrix`/`ModelMatrices` wrappers (model_matrix.py 59, 62, 90) and the `spec`-carrying behaviour of numpy/sparse outputs;
     - entry-point equivalence as ONE theorem over an inductive type of entry points (top-level function, Formula method, ModelSpec method, materializer method, ModelSpecs method).""",
    "C06": """     - value-type generality: today only Series-like factor values are exercised. Python-expression factors can evaluate to a scalar (`{1.5}`, `{float('nan')}` → "Constant value is null" error), a list, a dict of columns, a 0-d/2-d ndarray (`{x.values.reshape(-1,1)}`), a scipy sparse matrix, a narwhals Series: model `find_nulls`/`drop_rows` over a sum type of value shapes and prove "rows removed = rows in which ANY cell of ANY evaluated factor is null" and "drop_rows is positional for every shape";
     - the ordering of `drop_rows` handed to the per-type droppers (sorted list vs set) and duplicates in the caller's drop set;
     - na_action given as enum vs string vs invalid string (error branch).""",
    "C07": """     - `ModelSpecs.subset` / `ModelSpecs.differentiate` / `ModelSpecs.get_model_matrix` with a structure mismatch (error branches at model_spec.py 800-836 are never executed);
     - encoder_state bookkeeping across parts that share a categorical factor (state recorded once vs per part) as part of the model rather than data;
     - nested structures: tuples of parts inside keyword structure (`Formula(a=("x", "y|z"))`), shape preservation as a theorem over the Structured tree (reuse `Model/Structured.lean`).""",
    "C08": """     - the level-inference function itself (sorted distinct non-null values, mixed-type objects that cannot be sorted, booleans, declared categories with unused levels, ordered categoricals) inside the model with the sort as a modelled insertion sort, not received as data;
     - "every cell is a number for every output type and materializer": numeric dtype of the produced matrix per output (pandas frame dtypes, numpy dtype, sparse dtype) as a generated table + theorem;
     - constant/literal factors (`_encode_constant`) for every output.""",
    "C09": """     - non-treatment contrasts on reuse (sum/helmert/diff/poly/custom with recorded levels): absent levels still produce their columns, unseen levels never reshape — extend the theorems from treatment coding to an arbitrary coding matrix;
     - custom contrasts (`contrasts.py` 866-922: dict / array / names mismatch error) on reuse;
     - the warning clause "announced with a data-mismatch warning" for every encoder route (dense, sparse, narwhals).""",
    "C10": """     - `term_factors`, `factors`, `factor_terms`, `factor_variables`, `variable_terms`, `variables_by_source` are never executed: model them and prove they are mutually inverse / consistent (factor ∈ term_factors[t] ⟺ t ∈ factor_terms[factor], variable_indices = union over variable_terms of term_indices, …);
     - `ModelSpecs.subset` (structure mismatch errors) and `get_slice` with every key type (int, slice, Term, string, column name, invalid → error);
     - "a spec subset to chosen terms regenerates exactly the parent's columns": for terms given in any order and as strings/Terms/formula.""",
    "C11": """     - custom contrasts (`contr.custom` / `CustomContrasts`, dict or array, names, the mismatch error) and `Contrasts.apply` output inference (lines 235-241) are never executed: model + theorem "encoding = indicator × the given matrix, names as given or 1..k";
     - coefficient-matrix row/column NAMES for every built-in coding (get_coding_column_names / get_coefficient_row_names) as functions of the levels inside the model;
     - `contr.treatment(base=…)` with a base not among the levels (error), `drop`/`reduced_rank=False` for every coding.""",
    "C12": """     - argument validation / error branches of cubic_spline.py (lines 203, 282, 286, 308, 319, 324, 495, 497, 543, 552, 558) and of basis_spline.py: model which argument combinations are rejected (df too small, knots outside bounds, both/neither of df and knots, unknown extrapolation, constraints given as matrix vs 'center') and prove the accepted ones satisfy the theorems' hypotheses;
     - uniqueness of the interpolant (the tridiagonal system is strictly diagonally dominant ⇒ unique solution), so that "equals the cardinal basis of THE natural/periodic spline" is a theorem rather than a contract;
     - quantile knot placement for `df` inside the model on exact rationals (linear interpolation of order statistics) instead of data.""",
    "C13": """     - `scale.py` 64-66 and `patsy_compat.py` 29/34 (`standardize(…, rescale=…)`, `Q`, `Treatment`) are never executed: model and relate to scale/center;
     - "poly … spans the same space as the raw powers": make sure the theorem covers every degree and `raw=True`; "propagates missing values row-wise" with NaN in the middle of the three-term recurrence;
     - elementwise functions on every input container the library passes (Series, ndarray, scalar, narwhals) — generated table of `TRANSFORMS` → function identity (`numpy.log` is `numpy.log`) already exists: extend to ALL preloaded names with a stated contract each.""",
    "C14": """     - the MULTISTAGE configuration is excluded from `no_internal_error` (C14-F1): prove the theorem for MULTISTAGE on every string EXCEPT the finding's signature (a multistage operator whose lhs is itself structured), i.e. `no_internal_error_multistage_partial` with the excluding hypothesis explicit and a negative witness for the excluded case;
     - termination: "parsing terminates" — the model's fuel arguments need fuel-sufficiency theorems (tokenizer, sign collapse loop, shunting-yard) if any is still missing;
     - `Formula(...)` entry points beyond the parser: list/dict/tuple specs with non-string leaves (numbers, None, Term objects, nested Formula) never escape with an internal exception.""",
    "C15": """     - token.py 111-127, 167, 184, 220-272 (`to_factor`, `to_terms`, `get_source_context`, `split`, `copy_with_attrs`, token equality/hash) are never executed: model the ones the property speaks about (source spans after `split`, kind → factor eval method);
     - whitespace insensitivity "around operators and grouping brackets" at the level of the PARSED FORMULA (terms), composing `ws_insensitive` with the parser model;
     - Python-fragment normalisation: it enters as a parameter (`ast.unparse`); tighten the tie by modelling the pre/post passes of `utils/code.py` (`sanitize_variable_names` alias scan and restoration) inside Lean and prove restoration ∘ aliasing = identity on names for every fragment without the C15-F3 signature.""",
    "C16": """     - `LinearConstraints.parse` for every specification form (constraints.py 82-189: LinearConstraints instance passthrough, string, list/tuple of strings, dict expr→value, `(matrix, values)` tuple, bare matrix with default zero values, shape validation errors) is largely unexecuted: model the dispatch, prove each form denotes the same affine map as the equivalent string form;
     - `n_constraints`, row order for comma-separated and chained `a = b = c` equalities;
     - scalar multiplication/division algebra: a theorem that compile is a homomorphism (compile(e1 + e2) = compile e1 + compile e2, compile(c * e) = c • compile e) if not already explicit.""",
    "C17": """     - stateful_transforms.py 57/61/156/213 and layered_mapping.py 94/160-162 (named-layer lookups, `get_with_layer_name` for missing key, nested unnamed layers) never executed;
     - required variables "before and after materialization": ModelSpec.required_variables / variables_by_source for multi-part specs and for factors whose evaluation introduces variables only at run time;
     - comprehensions / lambdas / nested function definitions inside Python factors are excluded today ("comprehensions/lambdas" in 11.2): extend the BFS variable-extraction model to bound names (comprehension targets, lambda parameters) and prove bound names are never reported.""",
    "C18": """     - interleavings: model a history as an arbitrary interleaving of builds and spec reuses over SEVERAL formulas/specs/materializers sharing data and context objects, and prove each call's result equals its result in isolation (non-interference), including after a call that raised half-way (fault then reuse);
     - `ModelSpec.update`/`dataclasses.replace`, `Formula` mutation through the sequence protocol between calls;
     - hash-seed independence: identify every place the code iterates a `set`/`dict` keyed by hash-ordered objects on the way to an observable, model the iteration order as an arbitrary permutation parameter and prove the observable is permutation-invariant (the C16 development did this for constraints).""",
    "C19": """     - a quarter of structured.py is never executed: default merger (lists concatenate, sets union, dicts merge, mixed → NotImplementedError), `__getattr__/__setattr__`, tuple-path lookup and assignment (`s[('a', 0)]`, errors beyond the structure / into a non-Structured), `__getitem__` (root-only delegation, None/'root' keys, underscore keys rejected), `__setitem__` key validation (identifier, underscore), `__iter__`/`__len__`/`__contains__`/`__eq__`: model them on `Model/Structured.lean`'s tree (new file if another property imports it) with theorems: get-after-set, set does not disturb other paths, `len = length of iter`, iteration order root-first then insertion order, merge default = list concatenation in argument order;
     - LayeredMapping: named layers / `with_layers(inplace=…)` histories, `__delitem__` only on the private layer;
     - SimpleFormula as a mutable sequence: `insert`, slice assignment/deletion, `+`/`-` with other formulas, ordering modes none/degree/sort as ONE invariant theorem over every operation of the MutableSequence protocol.""",
    "C20": """     - `ModelSpecs.differentiate` and `StructuredFormula.differentiate` (part-wise) entry points;
     - the clause "every non-zero derivative term materializes to the exact finite difference of the original term's column": connect `finite_difference` (ring identity) with the C02 column model (`column_is_product`) into one theorem about the materialized columns for multilinear formulas;
     - differentiation w.r.t. a variable appearing inside a Python factor (`log(x)`, `I(x**2)`) without sympy: what does the code do (treats as atomic? raises?) — model and state it.""",
}

subprocess.run(f"git -C /repo worktree remove --force {R} >/dev/null 2>&1; rm -rf {d}; mkdir -p {d}", shell=True)
subprocess.run(f"rsync -a --exclude .git --exclude replays /verif/ {W}/ && mkdir -p {W}/replays && git -C /repo worktree add --detach {R} HEAD >/dev/null 2>&1", shell=True, check=True)
t = open("/verif/tools/EXTEND_BRIEF.md").read()
for k, v in dict(ID=ID, id=idl, W=W, R=R, FILES=FILES[ID], HINTS=HINTS[ID]).items():
    t = t.replace("{" + k + "}", v)
open(d + "/PROMPT.txt", "w").write(t)
print(d)
