#!/bin/bash
# usage: run_round_par.sh <round-dir-prefix e.g. /tmp/mut3-> <offset e.g. 5> <slot> C10 C16 ...
# confirm + run our check for seeded changes m1,m2 -> <ID>-m<k+offset>, from a private copy of /verif (slot) so several can run in parallel
pre=$1; off=$2; slot=$3; shift 3
V=/var/tmp/vcopy-$slot
rm -rf $V; rsync -a --exclude .git --exclude replays /verif/ $V/; mkdir -p $V/replays
for id in "$@"; do
 for k in 1 2; do
  n=$((k+off))
  [ -f $pre$id/out/m$k/patch.diff ] || { echo "$id-m$n: no patch"; continue; }
  VERIF_COPY=$V /verif/tools/run_seeded.py $pre$id/out/m$k $id $id-m$n 2>&1 | grep -v conda | /venv/bin/python -c "
import sys, json
try:
    r=json.load(sys.stdin)
    print(r['name'], 'confirmed=',r.get('confirmed'), 'applies=', r.get('patch_applies'), 'baseline=',r.get('baseline'), 'demo=',r.get('demo_clean_exit'),r.get('demo_mutant_exit'), {k:(v['verdict'], (v['why'] or '')[:200]) for k,v in r.get('checks',{}).items()}, flush=True)
except Exception as e: print('ERR', e, flush=True)
" 2>&1 | grep -v conda
 done
done
rm -rf $V
echo BATCHDONE $slot
