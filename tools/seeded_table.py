#!/venv/bin/python
"""Markdown table of /verif/seeded/*/meta.json for DESIGN.md section 14."""
import json, glob, os
rows = []
for d in sorted(glob.glob('/verif/seeded/*')):
    try:
        m = json.load(open(os.path.join(d, 'meta.json')))
    except Exception:
        continue
    ch = m.get('our_checks', {})
    prop = m.get('breaks_property') or m.get('property')
    v = ch.get(prop, {}).get('verdict', '?')
    others = [k for k, x in ch.items() if k != prop and x.get('verdict', '').startswith('detected')]
    rows.append((os.path.basename(d), prop, (m.get('summary') or '')[:110].replace('|', '/'), (m.get('needs') or '')[:90].replace('|', '/'), v + (f" (also {','.join(others)})" if others else '')))
print('| seeded change | property | what it does | needs | our check (quick, seed 0) |')
print('|---|---|---|---|---|')
for r in rows:
    print('| ' + ' | '.join(r) + ' |')
