#!/bin/bash
# usage: mkcloser.sh <ID>  — sandbox for a triage/closing agent: copy of /verif, worktree of /repo HEAD, the hunter's candidates
set -e
id=$1; n=k-$(echo $id | tr 'A-Z' 'a-z'); d=/var/tmp/fv-$n
git -C /repo worktree remove --force $d/repo >/dev/null 2>&1 || true
rm -rf $d; mkdir -p $d
rsync -a --exclude .git --exclude replays /verif/ $d/verif/
mkdir -p $d/verif/replays $d/verif/triage
git -C /repo worktree add --detach $d/repo HEAD >/dev/null 2>&1
cp -r /tmp/hunt-$id/out $d/hunt
python3 - "$id" "$d" <<'PY'
import sys
id, d = sys.argv[1], sys.argv[2]
t = open('/var/tmp/CLOSE.txt').read()
extra = open(d + '/EXTRA.txt').read() if __import__('os').path.exists(d + '/EXTRA.txt') else ''
for k, v in dict(W=d + '/verif', R=d + '/repo', H=d + '/hunt', ID=id, id=id.lower(), EXTRA=extra).items():
    t = t.replace('{' + k + '}', v)
open(d + '/PROMPT.txt', 'w').write(t)
PY
echo $d
