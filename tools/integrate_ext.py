#!/venv/bin/python
"""integrate_ext.py <ID> [--apply]  — merge an extension sandbox /var/tmp/fv-x<id>/verif into /verif.

For every file that differs between the sandbox and its BASE commit of /verif:
  * /verif still has the base version  -> copy the sandbox file
  * /verif changed it too              -> 3-way merge with `git merge-file` (conflicts are reported, file left with markers in <file>.merge)
New files are copied. Generated/derived files are skipped. Without --apply only the plan is printed.
fix: commits of the sandbox's repo worktree (commits on top of the base HEAD) are listed, not picked.
"""
import os, subprocess, sys, shutil, tempfile

ID = sys.argv[1]
apply = "--apply" in sys.argv
idl = ID.lower()
S = f"/var/tmp/fv-x{idl}/verif"
R = f"/var/tmp/fv-x{idl}/repo"
V = os.environ.get("INTEGRATE_INTO", "/verif")
SKIP_DIRS = ("lean/.lake", "replays", "evidence", "coverage", "seeded", ".git", "__pycache__")
SKIP_FILES = ("lean/FormulaicVerif/Engines.lean", "MANIFEST.json", "DESIGN.md")


def sh(c):
    return subprocess.run(c, shell=True, capture_output=True, text=True)


mt = os.stat(f"/var/tmp/fv-x{idl}/PROMPT.txt").st_mtime
base = None
for line in sh("git -C /verif log --format='%h %ct'").stdout.split("\n"):
    if line.strip():
        h, t = line.split()
        if int(t) <= mt:
            base = h
            break
print("base commit", base)


def base_content(rel):
    r = subprocess.run(["git", "-C", "/verif", "show", f"{base}:{rel}"], capture_output=True)
    return r.stdout if r.returncode == 0 else None


plan = []
for dp, dn, fn in os.walk(S):
    rel_d = os.path.relpath(dp, S)
    if any(rel_d == s or rel_d.startswith(s + "/") or "/__pycache__" in "/" + rel_d for s in SKIP_DIRS):
        dn[:] = []
        continue
    for f in fn:
        rel = os.path.normpath(os.path.join(rel_d, f))
        if rel in SKIP_FILES or rel.endswith((".pyc", ".tmp")) or "/Gen/" in "/" + rel:
            continue
        sb = open(os.path.join(S, rel), "rb").read()
        bb = base_content(rel)
        if bb is not None and bb == sb:
            continue  # untouched by the agent
        vp = os.path.join(V, rel)
        vb = open(vp, "rb").read() if os.path.exists(vp) else None
        if vb == sb:
            continue
        if vb is None:
            plan.append(("new", rel))
        elif bb is not None and vb == bb:
            plan.append(("copy", rel))
        elif bb is None:
            plan.append(("both-new-differ", rel))
        else:
            plan.append(("merge", rel))

for kind, rel in sorted(plan):
    print(f"{kind:16s} {rel}")
    if not apply:
        continue
    src, dst = os.path.join(S, rel), os.path.join(V, rel)
    if kind in ("new", "copy"):
        os.makedirs(os.path.dirname(dst), exist_ok=True)
        shutil.copy2(src, dst)
    elif kind == "merge" and rel == "known_findings.json":
        print(sh(f"/verif/tools/merge_findings.py {src}").stdout)
    elif kind == "merge" and rel == "harness/translate.py":
        print(sh(f"/verif/tools/merge_translate.py {src}").stdout)
    elif kind == "merge":
        with tempfile.NamedTemporaryFile(delete=False) as tb:
            tb.write(base_content(rel))
        work = dst + ".merge"
        shutil.copy2(dst, work)
        union = "--union " if rel.endswith("translate.py") else ""
        r = sh(f"git merge-file {union}-L current -L base -L {ID} {work} {tb.name} {src}")
        os.unlink(tb.name)
        if r.returncode == 0:
            os.replace(work, dst)
            print("    merged cleanly")
        else:
            print(f"    CONFLICTS ({r.returncode}) left in {work}")
    else:
        print("    NEEDS MANUAL ATTENTION")

# fix commits in the sandbox repo
head = sh(f"git -C {R} log --format='%h %s' HEAD --not $(git -C /repo rev-parse HEAD) 2>/dev/null").stdout
print("commits in sandbox repo not in /repo HEAD:\n" + head)
