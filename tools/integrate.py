#!/venv/bin/python
"""integrate.py <agent-name> [fix-sha ...] — merge a builder sandbox /var/tmp/fv-<name> into /verif and /repo."""
import json, subprocess, sys, os
name, shas = sys.argv[1], sys.argv[2:]
W = f"/var/tmp/fv-{name}/verif"
def sh(c, **kw): return subprocess.run(c, shell=True, capture_output=True, text=True, **kw)
# 1. new files only
print(sh(f"rsync -a --ignore-existing --exclude .git --exclude 'lean/.lake' --exclude replays --exclude evidence --exclude '__pycache__' {W}/ /verif/").stderr)
# 2. fixes
mapping = {}
for s in shas:
    r = sh(f"git -C /repo cherry-pick {s}")
    if r.returncode != 0:
        print("CHERRY-PICK FAILED", s, r.stderr[-300:]); sh("git -C /repo cherry-pick --abort"); continue
    mapping[s[:7]] = sh("git -C /repo rev-parse --short HEAD").stdout.strip()
    print("picked", s, "->", mapping[s[:7]])
# 3. findings
a = json.load(open(f"{W}/known_findings.json")); k = json.load(open("/verif/known_findings.json"))
have = {f["id"] for f in k["findings"]}
for f in a["findings"]:
    if f["id"] not in have:
        k["findings"].append(f); print("finding", f["id"])
for line in a.get("fixed", []):
    new = line
    for o, n in mapping.items():
        new = new.replace(o, n)
    base = [l.split(" ", 3)[-1][:60] for l in k["fixed"]]
    if new not in k["fixed"] and line not in k["fixed"] and new.split(" ", 3)[-1][:60] not in base:
        k["fixed"].append(new); print("fixed+", new[:100])
json.dump(k, open("/verif/known_findings.json", "w"), indent=1)
