#!/venv/bin/python
"""merge_findings.py <other known_findings.json> — append findings whose id /verif's file lacks (fixed: lines are recorded by hand with the /repo hashes)."""
import json, sys
import os
p = os.environ.get("INTEGRATE_INTO", "/verif") + "/known_findings.json"
k, o = json.load(open(p)), json.load(open(sys.argv[1]))
have = {f["id"] for f in k["findings"]}
for f in o["findings"]:
    if f["id"] not in have:
        k["findings"].append(f)
        print("finding added:", f["id"], f.get("status"))
json.dump(k, open(p, "w"), indent=1)
