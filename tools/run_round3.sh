#!/bin/bash
# usage: run_round2.sh C10 C16 ...   — confirm + run our check for third-round seeded changes (m1,m2 -> <ID>-m6,<ID>-m7)
cd /verif
for id in "$@"; do
 for k in 1 2; do
  n=$((k+5))
  [ -f /tmp/mut3-$id/out/m$k/patch.diff ] || { echo "$id-m$n: no patch"; continue; }
  tools/run_seeded.py /tmp/mut3-$id/out/m$k $id $id-m$n 2>&1 | grep -v conda | /venv/bin/python -c "
import sys, json
try:
    r=json.load(sys.stdin)
    print(r['name'], 'confirmed=',r.get('confirmed'), 'applies=', r.get('patch_applies'), 'baseline=',r.get('baseline'), 'demo=',r.get('demo_clean_exit'),r.get('demo_mutant_exit'), {k:(v['verdict'], (v['why'] or '')[:200]) for k,v in r.get('checks',{}).items()}, flush=True)
except Exception as e: print('ERR', e, flush=True)
" 2>&1 | grep -v conda
 done
done
echo BATCHDONE
