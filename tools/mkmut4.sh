#!/bin/bash
# usage: mkmut2.sh <ID>  — fourth-round scratch worktree + prompt for a mutation-writing agent (no /verif content)
set -e
id=$1; d=/tmp/mut4-$id
git -C /repo worktree remove --force $d/repo >/dev/null 2>&1 || true
rm -rf $d; mkdir -p $d/out
git -C /repo worktree add --detach $d/repo HEAD >/dev/null 2>&1
/venv/bin/python - "$id" "$d" <<'PY'
import json, sys
id, d = sys.argv[1], sys.argv[2]
for l in open('/verif/properties.jsonl'):
    p = json.loads(l)
    if p['id'] == id:
        prop = p['title'] + "\n\n" + p['statement'] + "\n\nQuantified over: " + p['quantifier']['text'] + "\n"
open(d + '/property.txt', 'w').write(prop)
t = open('/verif/tools/MUT_PROMPT4.txt').read()
open(d + '/PROMPT.txt', 'w').write(t.replace('{PROP}', prop).replace('{D}', d).replace('{ID}', id))
PY
echo $d
