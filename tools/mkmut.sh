#!/bin/bash
# usage: mkmut.sh <ID>  — scratch worktree of /repo HEAD for a mutation-writing agent (no /verif content)
set -e
id=$1; d=/tmp/mut-$id
git -C /repo worktree remove --force $d/repo >/dev/null 2>&1 || true
rm -rf $d; mkdir -p $d/out
git -C /repo worktree add --detach $d/repo HEAD >/dev/null 2>&1
/venv/bin/python - "$id" > $d/property.txt <<'PY'
import json, sys
for l in open('/verif/properties.jsonl'):
    p = json.loads(l)
    if p['id'] == sys.argv[1]:
        print(p['title']); print(); print(p['statement']); print(); print('Quantified over:', p['quantifier']['text'])
PY
echo $d
