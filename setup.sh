#!/bin/bash
# Build the framework from files on disk only (offline). Regenerates the tables from /repo first.
cd "$(dirname "$(readlink -f "$0")")" || exit 2
export FV_REPO="${FV_REPO:-/repo}"
export PYTHONPATH="$PWD:$FV_REPO" PYTHONHASHSEED=0
/venv/bin/python -W ignore -m harness.translate 2>&1 | grep -v conda
cd lean && lake build FormulaicVerif 2>&1 | tail -5
for f in FormulaicVerif/Props/C*.lean; do
  m=$(basename "$f" .lean)
  lake build "FormulaicVerif.Props.$m" 2>&1 | tail -2
done
exit 0
