#!/bin/bash
# Build the framework from files on disk only (offline). Regenerates the tables from /repo first.
cd "$(dirname "$(readlink -f "$0")")" || exit 2
export FV_REPO="${FV_REPO:-/repo}"
export PYTHONPATH="$PWD:$FV_REPO" PYTHONHASHSEED=0
/venv/bin/python -W ignore -m harness.translate 2>&1 | grep -v conda
cd lean || exit 2
mods="FormulaicVerif"
for f in FormulaicVerif/Props/C*.lean; do
  mods="$mods FormulaicVerif.Props.$(basename "$f" .lean)"
done
# one lake invocation: independent modules are compiled in parallel on all cores
lake build $mods 2>&1 | tail -5
exit 0
